#!/bin/sh
# Offline bootstrap: puts icontract (runtime contracts) beside the repository's own interpreter.
# Idempotent; ./check calls it on demand, MANIFEST.setup_cmd calls it once after a restore.
set -e
cd "$(dirname "$0")"
if [ ! -d .deps/icontract ]; then
    rm -rf .deps
    PIP_NO_INDEX=1 /venv/bin/pip install --quiet --no-index --find-links /opt/veriftools/wheels \
        --target .deps icontract >/dev/null 2>&1 || {
        echo "setup: could not install icontract from /opt/veriftools/wheels" >&2; exit 3; }
fi
mkdir -p evidence replays
exit 0
