from dissect.cobaltstrike.c2profile import *
import itertools, time
bad=[]; n=0
t=time.time()
for L in (0,1,2):
    for tup in itertools.product(range(256), repeat=L):
        b=bytes(tup); s=value_to_string(b); n+=1
        back=string_token_to_bytes(Token("STRING", s))
        if back!=b: bad.append((b,s,back))
print(n, "direct bad", len(bad), bad[:10], time.time()-t)
# via parser
t=time.time(); bad=[]; n=0
alpha = b'"\\xu\n;{}#\'a0'
for L in (0,1,2,3):
    for tup in itertools.product(alpha, repeat=L):
        b=bytes(tup); s=value_to_string(b); n+=1
        src = 'http-get { server { output { append %s; print; } } }\nset jitter "5";' % s
        try:
            p=C2Profile.from_text(src); d=p.as_dict()
            ok = d.get("http-get.server.output")==[("append", b), "print"] and d.get("jitter")==["5"]
        except Exception as e:
            ok=False; d=repr(e)[:80]
        if not ok: bad.append((b,s,d))
print(n, "parser bad", len(bad), bad[:10], time.time()-t)
# str input
for v in ['a\\', 'a"b', "it's", 'a\\"b', 'new\nline', 'x\\x41']:
    s=value_to_string(v); print(repr(v), '->', s, '->', string_token_to_bytes(Token("STRING", s)))
