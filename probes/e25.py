import re, time
from dissect.cobaltstrike.c2profile import C2Profile, c2profile_parser
from lark import Token
# independent mini tokenizer
def toks(src):
    out=[]; i=0
    while i < len(src):
        c=src[i]
        if c.isspace(): i+=1; continue
        if c=="#":
            while i<len(src) and src[i]!="\n": i+=1
            continue
        if c=='"':
            j=i+1
            while True:
                if src[j]=="\\": j+=2; continue
                if src[j]=='"': break
                j+=1
            out.append(src[i:j+1]); i=j+1; continue
        if c in "{};": out.append(c); i+=1; continue
        j=i
        while j<len(src) and not src[j].isspace() and src[j] not in '{};"': j+=1
        out.append(src[i:j]); i=j
    return out
# Extract grammar text productions per block from the .lark file (static reading)
g = open("/repo/dissect/cobaltstrike/c2profile.lark").read()
rules = {}
cur=None
for line in g.splitlines():
    line=line.split("//")[0].rstrip()
    m = re.match(r"^\??([a-z_]+):\s*(.*)$", line)
    if m and not line.startswith("OPTION") :
        cur=m.group(1); rules[cur]=[]; rest=m.group(2)
        if rest: rules[cur].append(rest)
    elif line.strip().startswith("|") and cur:
        rules[cur].append(line.strip()[1:].strip())
    elif line.startswith("OPTION") or line.startswith("STRING") or line.startswith("%"): cur=None
def sent(expansion, depth=0):
    # expansion like: "set" "uri" string ";" -> uri
    exp = expansion.split("->")[0].strip()
    parts = re.findall(r'"[^"]*"|[a-zA-Z_]+[*?]?|~ 1', exp)
    out=[]
    for p in parts:
        if p.startswith('"'): out.append(p[1:-1])
        elif p=="string": out.append('"v"')
        elif p=="OPTION": out.append("jitter")
        elif p in ("variant?",): pass
        elif p.endswith("*"):
            pass
        else: out.append("<"+p+">")
    return out
bad=[]
n=0
wrap = {"value": "%s", "http_config_options": "http-config { %s }", "http_stager_options": "http-stager { %s }", "http_options": "http-get { server { %s } }",
        "transform_statement": "http-get { server { output { %s print; } } }", "termination_statement": "http-get { client { metadata { %s } } }",
        "stage_transform": "stage { transform-x86 { %s } }", "http_get_options": "http-get { %s }", "http_get_client_options": "http-get { client { %s } }",
        "http_post_options": "http-post { %s }", "https_certificate_options": "https-certificate { %s }", "code_signer_options": "code-signer { %s }",
        "stage_options": "stage { %s }", "process_inject_options": "process-inject { %s }", "execute_options": "process-inject { execute { %s } }",
        "beacon_gate_options": "stage { beacon_gate { %s } }", "postex_options": "post-ex { %s }", "dns_beacon_options": "dns-beacon { %s }", "http_beacon_options": "http-beacon { %s }"}
t0=time.time()
for rule, exps in rules.items():
    if rule not in wrap: continue
    for e in exps:
        s = " ".join(sent(e))
        if "<" in s: continue
        src = wrap[rule] % s
        n+=1
        try:
            p = C2Profile.from_text(src); txt = p.as_text()
            a, b = toks(src), toks(txt)
            p2 = C2Profile.from_text(txt)
            if a!=b or p2.tree!=p.tree: bad.append((src, txt.replace("\n"," ")))
        except Exception as ex:
            bad.append((src, "EXC "+type(ex).__name__+": "+str(ex)[:100]))
print(n, "productions tried,", len(bad), "bad", round(time.time()-t0,1),"s")
for b in bad: print(b)
