import io
from dissect.cobaltstrike.c2 import *
from dissect.cobaltstrike import c2
def rt(steps, c2data, req=None, label=""):
    t = HttpDataTransform(list(steps))
    try:
        r = t.transform(c2data, req)
        back = t.recover(r)
        print(label, "->", r, "| back:", back)
    except Exception as e:
        print(label, "EXC", type(e).__name__, e)
md = C2Data(metadata=b"hello-meta")
rt([("BUILD","metadata"),("BASE64",True),("APPEND",b""),("HEADER",b"Cookie")], md, label="append-empty")
rt([("BUILD","metadata"),("BASE64",True),("PREPEND",b""),("HEADER",b"Cookie")], md, label="prepend-empty")
rt([("_PARAMETER",b"a=b"),("BUILD","metadata"),("BASE64",True),("HEADER",b"Cookie")], md, label="static-param")
rt([("BUILD","metadata"),("BASE64URL",True),("URI_APPEND",True)], md, HttpRequest(b"GET", b"/base", {}, {}, b""), label="uri-append-base")
rt([("BUILD","metadata"),("BASE64URL",True),("URI_APPEND",True)], md, None, label="uri-append-nobase")
rt([("BUILD","metadata"),("MASK",True),("NETBIOSU",True),("PARAMETER",b"q")], md, None, label="mask-netbiosu-param")
rt([("BUILD","metadata"),("NETBIOS",True),("PRINT",True)], C2Data(metadata=b""), None, label="empty payload")
rt([("BUILD","metadata"),("MASK",True),("PRINT",True)], C2Data(metadata=b""), None, label="empty payload mask")
rt([("_HEADER",b"Accept: */*"),("_HOSTHEADER",b"Host: x.y"),("BUILD","id"),("PARAMETER",b"id"),("BUILD","output"),("MASK",True),("BASE64",True),("PRINT",True)], ClientC2Data(id=b"1234", output=b"\x00\x01binary"), None, label="post 2 blocks")
# C14: mutation of steps list
steps=[("print",True),("base64",True)]
t1 = HttpDataTransform(steps, reverse=True, build="output"); print("after 1:", steps)
t2 = HttpDataTransform(steps, reverse=True, build="output"); print("after 2:", steps, t2.tsteps, t2.rsteps)
