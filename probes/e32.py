import random, struct, base64 as _b, collections
from dissect.cobaltstrike.c2 import HttpDataTransform, C2Data, HttpRequest, ClientC2Data
from dissect.cobaltstrike.beacon import BeaconConfig
random.seed(11)
B64="ABCDEFGHIJKLMNOPQRSTUVWXYZabcdefghijklmnopqrstuvwxyz0123456789+/"
def b64(d, url=False, pad=True):
    al = B64 if not url else B64[:62]+"-_"
    out=[]
    for i in range(0,len(d),3):
        c=d[i:i+3]; n=int.from_bytes(c.ljust(3,b"\0"),"big")
        q=[al[(n>>18)&63], al[(n>>12)&63], al[(n>>6)&63], al[n&63]]
        if len(c)==1: q=q[:2]+(["=","="] if pad else [])
        elif len(c)==2: q=q[:3]+(["="] if pad else [])
        out+=q
    return "".join(out).encode()
def unb64(s, url=False):
    al = B64 if not url else B64[:62]+"-_"
    s=s.rstrip(b"="); bits=0; nb=0; out=bytearray()
    for ch in s.decode():
        bits=(bits<<6)|al.index(ch); nb+=6
        if nb>=8: nb-=8; out.append((bits>>nb)&0xff)
    return bytes(out)
def nb(d, base): return bytes(x for b in d for x in (base+(b>>4), base+(b&15)))
def unnb(s, base): return bytes(((s[i]-base)<<4)|(s[i+1]-base) for i in range(0,len(s),2))
def ref_encode(prog, c2, req, rng):
    uri,params,headers,body = req.uri, dict(req.params), dict(req.headers), req.body
    data=b""
    for op,arg in prog:
        if op=="BUILD": data = getattr(c2, arg) or b""
        elif op=="APPEND": data+=arg
        elif op=="PREPEND": data=arg+data
        elif op=="BASE64": data=b64(data)
        elif op=="BASE64URL": data=b64(data,True,pad=False)
        elif op=="NETBIOS": data=nb(data,0x61)
        elif op=="NETBIOSU": data=nb(data,0x41)
        elif op=="MASK":
            k=bytes(rng.randrange(256) for _ in range(4)); data=k+bytes(b^k[i%4] for i,b in enumerate(data))
        elif op=="PRINT": body=data
        elif op=="HEADER": headers[arg]=data
        elif op=="PARAMETER": params[arg]=data
        elif op=="URI_APPEND": uri=uri+data
        elif op in ("_HEADER","_HOSTHEADER"): k,_,v=arg.partition(b": "); headers[k]=v
        elif op=="_PARAMETER": k,_,v=arg.partition(b"="); params[k]=v
    return HttpRequest(req.method, uri, params, headers, body)
def ref_decode(prog, http, base_uri=b""):
    # split into build blocks
    out={}
    blocks=[]; cur=None
    for op,arg in prog:
        if op=="BUILD": cur=[arg,[]]; blocks.append(cur)
        elif op in ("_HEADER","_HOSTHEADER","_PARAMETER"): continue
        else: cur[1].append((op,arg))
    for name, steps in blocks:
        term=steps[-1]; 
        if term[0]=="PRINT": data=http.body
        elif term[0]=="HEADER": data=http.headers[term[1]]
        elif term[0]=="PARAMETER": data=http.params[term[1]]
        elif term[0]=="URI_APPEND": data=http.uri[len(base_uri):]
        for op,arg in reversed(steps[:-1]):
            if op=="APPEND": data=data[:len(data)-len(arg)]
            elif op=="PREPEND": data=data[len(arg):]
            elif op=="BASE64": data=unb64(data)
            elif op=="BASE64URL": data=unb64(data,True)
            elif op=="NETBIOS": data=unnb(data,0x61)
            elif op=="NETBIOSU": data=unnb(data,0x41)
            elif op=="MASK": k=data[:4]; data=bytes(b^k[i%4] for i,b in enumerate(data[4:]))
        out[name]=data
    return out
ENC=["BASE64","BASE64URL","NETBIOS","NETBIOSU","MASK","APPEND","PREPEND"]
def gen_prog(rng, kinds):
    prog=[]; sinks=set()
    def rb(n=8): return bytes(rng.randrange(256) for _ in range(rng.randrange(0,n)))
    for name in kinds:
        for _ in range(rng.randrange(0,2)):
            k=b"H%d"%rng.randrange(100); prog.append((rng.choice(["_HEADER","_HOSTHEADER"]), k+b": "+rb()))
        prog.append(("BUILD",name))
        for _ in range(rng.randrange(0,6)):
            op=rng.choice(ENC); prog.append((op, rb() if op in ("APPEND","PREPEND") else True))
        while True:
            t=rng.choice(["PRINT","HEADER","PARAMETER","URI_APPEND"])
            key=(t, None) if t in ("PRINT","URI_APPEND") else (t, b"S%d"%rng.randrange(5))
            if key not in sinks: sinks.add(key); break
        prog.append((t, key[1] if key[1] else True))
    if rng.random()<0.3: prog.append(("_PARAMETER", b"p%d=v"%rng.randrange(9)))
    return prog
stats=collections.Counter(); samples={}
for i in range(30000):
    rng=random.Random(i)
    kinds = rng.choice([["metadata"],["id","output"],["output","id"],["output"]])
    prog=gen_prog(rng,kinds)
    c2 = C2Data(**{k: bytes(rng.randrange(256) for _ in range(rng.choice([0,1,3,15,16,17,40]))) for k in kinds})
    base = rng.choice([b"", b"/base"])
    req0 = HttpRequest(b"GET", base, {}, {b"User-Agent": b"x"}, b"")
    known = []
    if any(op in("APPEND","PREPEND") and arg==b"" for op,arg in prog): known.append("emptyarg")
    if any(op=="_PARAMETER" for op,_ in prog): known.append("_parameter")
    if any(op=="URI_APPEND" for op,_ in prog) and base: known.append("uri_base")
    want={k:getattr(c2,k) for k in kinds}
    # lib -> lib
    random.seed(i)
    try:
        t=HttpDataTransform(list(prog)); r=t.transform(c2, HttpRequest(b"GET", base, {}, {b"User-Agent": b"x"}, b""))
        back=t.recover(r); got={k:getattr(back,k) for k in kinds}; ll = got==want
    except Exception as e: ll="EXC:"+type(e).__name__; r=None
    # lib -> ref
    try: lr = (ref_decode(prog, r, base)==want) if r is not None else "n/a"
    except Exception as e: lr="EXC:"+type(e).__name__
    # ref -> lib
    re_ = ref_encode(prog, c2, HttpRequest(b"GET", base, {}, {b"User-Agent": b"x"}, b""), rng)
    try:
        back=HttpDataTransform(list(prog)).recover(re_); rl = {k:getattr(back,k) for k in kinds}==want
    except Exception as e: rl="EXC:"+type(e).__name__
    key=(tuple(known), ll, lr, rl); stats[key]+=1; samples.setdefault(key,(prog,c2,base))
for k,v in sorted(stats.items(), key=lambda x:-x[1]): print(v,k)
for k,(prog,c2,base) in samples.items():
    if not k[0] and (k[1] is not True or k[2] is not True or k[3] is not True): print("UNEXPLAINED", k, prog, c2, base)
