import sys, io
sys.path.insert(0, __import__("os").path.join(__import__("os").path.dirname(__file__), "deps"))
import icontract
from dissect.cobaltstrike import xordecode, c2, client
class PostBroken(Exception): pass
COUNT = {"read":0}
def pos_before(self): return self.tell()
def advanced_by_len(self, result, OLD):
    COUNT["read"] += 1
    return self.tell() - OLD.pos == len(result)
X = xordecode.XorEncodedFile
X.read = icontract.snapshot(pos_before, name="pos")(icontract.ensure(advanced_by_len, error=lambda self, result, OLD: PostBroken(f"tell {OLD.pos}->{self.tell()} but returned {len(result)} bytes"))(X.read))
import struct
def xorenc(plain, nonce):
    out=bytearray(); prev=nonce
    for i in range(0,len(plain),4):
        e=bytes(a^b for a,b in zip(plain[i:i+4], prev)); out+=e; prev=e
    return nonce+bytes(a^b for a,b in zip(struct.pack("<I",len(plain)),nonce))+bytes(out)
xf = X(io.BytesIO(xorenc(bytes(range(200)), b"abcd")))
xf.seek(0); print(xf.read(8))
try: xf.read(3)
except PostBroken as e: print("contract fired:", e)
print(COUNT)
# steps not mutated contract
def steps_copy(steps): return list(steps)
def steps_unchanged(steps, OLD): return list(steps) == OLD.s
H = c2.HttpDataTransform
H.__init__ = icontract.snapshot(steps_copy, name="s")(icontract.ensure(steps_unchanged, error=lambda steps, OLD: PostBroken(f"steps mutated {OLD.s} -> {steps}"))(H.__init__))
try: H([("print",True)], reverse=True, build="output")
except PostBroken as e: print("contract fired:", e)
