import zipfile, io, sys
from pathlib import Path
B = Path("/repo/tests/beacons")
NAMES = {
 "x86": "4f571c0bc97c20eefc58fa3faf32148d.bin.zip",
 "x64": "1897a6cdf17271807bd6ec7c60fffea3.bin.zip",
 "custom": "3fdf92571d10485b05904e35c635c655.bin.zip",
 "dns": "a1573fe60c863ed40fffe54d377b393a.bin.zip",
 "c2test": "37882262c9b5e971067fd989b26afe28.bin.zip",
 "puny": "5a197a8bb628a2555f5a86c51b85abd7.bin.zip",
 "guard": "124552cf674b362e0c916ab79b9e7a56.bin.zip",
}
def load(name):
    p = B / NAMES[name]
    with zipfile.ZipFile(p) as zf:
        return zf.read(p.stem, pwd=b"dissect.cobaltstrike")
