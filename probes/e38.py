import random, collections
from dissect.cobaltstrike.c2 import parse_raw_http, HttpRequest, HttpResponse
random.seed(9)
UNRES=b"ABCDEFGHIJKLMNOPQRSTUVWXYZabcdefghijklmnopqrstuvwxyz0123456789-._~"
PCHAR=UNRES+b"!$&'()*+,=:@"
def pct(b, safe=UNRES, plus=False):
    out=b""
    for c in b:
        if c in safe: out+=bytes([c])
        elif c==0x20 and plus: out+=b"+"
        else: out+=b"%%%02X"%c
    return out
def token(n=8, al=UNRES): return bytes(random.choice(al) for _ in range(random.randrange(1,n)))
res=collections.Counter(); shown=collections.Counter()
for it in range(20000):
    method=random.choice([b"GET",b"POST",b"PUT",token(6)])
    if method.upper().startswith(b"HTTP/"): continue
    path=b"/"+b"/".join(token(8, PCHAR) for _ in range(random.randrange(0,4)))
    hi = random.random()<0.3
    params=[]
    for _ in range(random.randrange(0,4)):
        k=bytes(random.randrange(0,256 if hi else 128) for _ in range(random.randrange(1,6))); v=bytes(random.randrange(0,256 if hi else 128) for _ in range(random.randrange(1,8)))
        params.append((k,v))
    plus=random.random()<.5
    q=b"&".join(pct(k,plus=plus)+b"="+pct(v,plus=plus) for k,v in params)
    nh=random.randrange(0,5)
    headers=[(token(10, UNRES), bytes(random.choice(b"abc :;=\t\xff\x00xyz") for _ in range(random.randrange(0,10)))) for _ in range(nh)]
    headers=[(k, v.replace(b"\r",b"")) for k,v in headers]
    body=bytes(random.choice(b"\r\n\x00ab\xff") for _ in range(random.randrange(0,20)))
    raw=method+b" "+path+(b"?"+q if params else b"")+b" HTTP/1.1\r\n"+b"".join(k+b": "+v+b"\r\n" for k,v in headers)+b"\r\n"+body
    exp=HttpRequest(method, path, dict(params), dict(headers), body)
    cls=("hi" if hi and any(max(k+v)>127 for k,v in params) else "ascii", "nohdr" if nh==0 else "hdr", "semi" if b";" in path else "")
    try: got=parse_raw_http(raw); r = "ok" if got==exp else "diff:"+",".join(f for f in exp._fields if getattr(got,f)!=getattr(exp,f))
    except Exception as e: r="EXC:"+type(e).__name__
    res[(cls,r)]+=1
    if r!="ok" and shown[(cls,r)]<1: shown[(cls,r)]+=1; print(cls, r, raw[:120])
for k,v in sorted(res.items(), key=str): print(k,v)
