import struct, os, io, random, time
from dissect.cobaltstrike.beacon import BeaconConfig
from dissect.cobaltstrike import guardrails
def S(i,t,v): return struct.pack(">HHH", i,t,len(v))+v
def rx(data, key):
    return bytes(b ^ key[i % len(key)] for i,b in enumerate(data))
def checksum(data):
    n=0
    for i,b in enumerate(data): n=(n+b*(i%3+1))%99999999
    return n
def guard_payload(cfg, envkey, opts=((6,1,b"\x00\x01"),), prefix=b"", suffix=b"", bad_checksum=False, rnd_pad=False):
    padded = cfg.ljust(6144, b"\0") if not rnd_pad else cfg + b"\0\0" + os.urandom(6144-len(cfg)-2)
    stored = checksum(padded)+1 + (1 if bad_checksum else 0)
    masked_beacon = rx(rx(padded, envkey), b"\x2e")
    g = b"".join(S(o,t,v) for o,t,v in opts) + S(9,2,struct.pack(">I",stored)) + b"\0\0"
    g = g + os.urandom(2048-len(g))
    masked_guard = rx(rx(g, masked_beacon[::-1][:2048]), b"\x8a")
    return prefix+masked_beacon+masked_guard+suffix
cfg = S(1,1,b"\x00\x08")+S(2,1,b"\x01\xbb")+S(8,3,b"a.example.com,/x".ljust(256,b"\0"))+S(9,3,b"Mozilla/5.0".ljust(128,b"\0"))+S(37,2,struct.pack(">I",0x12345678))+S(14,3,os.urandom(16))
random.seed(1)
fails=0
for keylen in (2,3,5,15,16,64,255,256):
    key = bytes(random.randrange(1,256) for _ in range(keylen))
    p = guard_payload(cfg, key, prefix=os.urandom(random.randrange(0,3000)), suffix=os.urandom(500))
    t=time.time()
    try:
        c = BeaconConfig.from_bytes(p); g=c.guardrails
        ok = g.payload_xor_key==key and c.config_block==cfg.ljust(6144,b"\0")
        print(keylen, ok, [ (s.option.value) for s in g.settings], hex(g.checksum), g.beacon_config_offset, round(time.time()-t,2))
    except Exception as e: print(keylen, "EXC", type(e).__name__, e); fails+=1
# periodic key
p = guard_payload(cfg, b"abab", prefix=b"Q"*10)
c = BeaconConfig.from_bytes(p); print("periodic key abab ->", c.guardrails.payload_xor_key)
# bad checksum
p = guard_payload(cfg, b"desktop-xyz", prefix=b"Q"*10, bad_checksum=True)
try: c = BeaconConfig.from_bytes(p); print("bad checksum -> config?!", c)
except ValueError as e: print("bad checksum -> ValueError", e)
print([ (g.unmasked_beacon_config is None, g.payload_xor_key, hex(g.checksum)) for g in guardrails.iter_guardrail_configs_with_beacon(io.BytesIO(p))])
# all options
p = guard_payload(cfg, b"desktop-xyz", opts=((5,1,b"\x00\x01"),(6,1,b"\x00\x01"),(7,1,b"\x00\x01"),(8,2,b"\x0a\x00\x00\x01")))
c = BeaconConfig.from_bytes(p); print([ (s.option, s.value) for s in c.guardrails.settings])
# random padding + long key
for keylen in (15, 64, 200):
    key = bytes(random.randrange(1,256) for _ in range(keylen))
    p = guard_payload(cfg, key, rnd_pad=True)
    try: c=BeaconConfig.from_bytes(p); print("rndpad", keylen, c.guardrails.payload_xor_key==key)
    except ValueError as e: print("rndpad", keylen, "ValueError")
