import io, time
from dissect.cobaltstrike.c2 import *
from Crypto.PublicKey import RSA
from Crypto.Cipher import PKCS1_v1_5
t=time.time(); key = RSA.generate(1024); print("gen1024", time.time()-t)
t=time.time(); key2 = RSA.generate(2048); print("gen2048", time.time()-t)
pub = key.publickey()
# short plaintext
for pt in (b"", b"hi", b"\x00\x00\xbe\xef", b"\x00\x00\xbe\xef"+b"\x00"*10, b"\x00\x00\xbe\xee"+b"\x00\x00\x00\x33"+b"A"*51,  b"\x00\x00\xbe\xef"+b"\x00\x00\x00\x10"+b"A"*51):
    ct = PKCS1_v1_5.new(pub).encrypt(pt)
    try:
        m = decrypt_metadata(ct, key); print(pt[:8], "->", m)
    except Exception as e:
        print(pt[:8], "EXC", type(e).__name__, e)
# wrong key
ct = PKCS1_v1_5.new(key2.publickey()).encrypt(b"x"*20)
for blob in (ct, b"", b"\x00"*128, b"\xff"*128, b"A"*127, b"A"*129):
    try: print(decrypt_metadata(blob, key))
    except Exception as e: print(len(blob), "EXC", type(e).__name__, e)
# metadata roundtrip & limits
m = BeaconMetadata(magic=0xBEEF, aes_rand=b"R"*16, bid=0xFFFFFFFF, pid=0xFFFFFFFF, port=65535, flag=255, ver_major=255, ver_minor=255, ver_build=65535, ptr_x64=0xFFFFFFFF, ptr_gmh=0xFFFFFFFF, ptr_gpa=0xFFFFFFFF, ip=0xFFFFFFFF, ansi_cp=65535, oem_cp=65535, info=b"")
for n in (0,1,57,58,59):
    m.info=b"i"*n
    try:
        ct = encrypt_metadata(m, pub); m2 = decrypt_metadata(ct, key); print(n, len(m.dumps()), m2 == m, m2.size, m2.info==m.info)
    except Exception as e: print(n, "EXC", type(e).__name__, e)
print(type(m).__mro__)
import dissect.cstruct; print(dissect.cstruct.__file__)
print([f for f in dir(m) if not f.startswith('__')][:30])
