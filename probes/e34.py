import random, struct, io, os, hashlib, collections
from Crypto.Cipher import AES
from dissect.cobaltstrike import c2
from dissect.cobaltstrike.c2 import *
random.seed(5)
def ref_cbc_enc(pt, key, iv):
    ecb=AES.new(key, AES.MODE_ECB); out=b""; prev=iv
    for i in range(0,len(pt),16):
        blk=bytes(a^b for a,b in zip(pt[i:i+16],prev)); prev=ecb.encrypt(blk); out+=prev
    return out
def ref_hmac(key,msg):
    k=key.ljust(64,b"\0"); 
    return hashlib.sha256(bytes(x^0x5c for x in k)+hashlib.sha256(bytes(x^0x36 for x in k)+msg).digest()).digest()
calls={"n":0}
orig=c2.decrypt_data
def spy(*a,**k): calls["n"]+=1; return orig(*a,**k)
c2.decrypt_data=spy
bad=collections.Counter(); faults=0
for L in list(range(0,50))+[random.randrange(50,3000) for _ in range(30)]:
    pt=os.urandom(L); key=os.urandom(16); hk=os.urandom(16); iv=random.choice([os.urandom(16), BeaconKeys.DEFAULT_AES_IV])
    p=encrypt_packet(pt,key,hk,iv)
    padded=pt+b"A"*(16-L%16)
    if p.ciphertext!=ref_cbc_enc(padded,key,iv): bad["ct"]+=1
    if p.signature!=ref_hmac(hk,p.ciphertext)[:16]: bad["sig"]+=1
    if decrypt_packet(p,key,hk,iv)!=padded: bad["rt"]+=1
    if L<40:
        muts=[]
        for i in range(len(p.ciphertext)*8): b=bytearray(p.ciphertext); b[i//8]^=1<<(i%8); muts.append((EncryptedPacket(bytes(b),p.signature),hk))
        for i in range(128): b=bytearray(p.signature); b[i//8]^=1<<(i%8); muts.append((EncryptedPacket(p.ciphertext,bytes(b)),hk))
        for i in range(128): b=bytearray(hk); b[i//8]^=1<<(i%8); muts.append((p,bytes(b)))
        for i in range(len(p.ciphertext)): muts.append((EncryptedPacket(p.ciphertext[:i],p.signature),hk))
        for i in range(16): muts.append((EncryptedPacket(p.ciphertext,p.signature[:i]),hk))
        muts+= [(p,None),(p,b"")]
        for q,k2 in muts:
            faults+=1; calls["n"]=0
            try: decrypt_packet(q,key,k2,iv); bad["accepted"]+=1
            except ValueError: pass
            except Exception as e: bad["exc:"+type(e).__name__]+=1
            if calls["n"]: bad["decrypted-before-reject"]+=1
# framing
for _ in range(300):
    pk=[encrypt_packet(os.urandom(random.randrange(0,100)),os.urandom(16),os.urandom(16)) for _ in range(random.randrange(1,6))]
    stream=b"".join(struct.pack(">I",len(p.ciphertext)+16)+p.ciphertext+p.signature for p in pk)
    if b"".join(p.dumps() for p in pk)!=stream: bad["dumps"]+=1
    if list(ClientC2Data(output=stream).iter_encrypted_packets())!=pk: bad["client-split"]+=1
    if list(ServerC2Data(output=pk[0].ciphertext+pk[0].signature).iter_encrypted_packets())!=[pk[0]]: bad["server-split"]+=1
print("faults", faults, dict(bad))
