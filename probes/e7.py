import io, os, struct, random
from dissect.cobaltstrike.xordecode import XorEncodedFile
from dissect.cobaltstrike import pe
def xorenc(plain, nonce, stub=b"", size_ok=True, trailer=b""):
    # | stub | nonce | size^nonce | enc...
    out = bytearray()
    prev = nonce
    size = struct.pack("<I", len(plain))
    encsize = bytes(a^b for a,b in zip(size, nonce))
    for i in range(0, len(plain), 4):
        chunk = plain[i:i+4]
        e = bytes(a^b for a,b in zip(chunk, prev))
        out += e
        prev = e if len(e)==4 else e  # last partial
    return stub + nonce + encsize + bytes(out) + trailer
plain = bytes(range(256))*3 + b"xyz"
enc = xorenc(plain, b"\x11\x22\x33\x44", stub=b"S"*10)
xf = XorEncodedFile(io.BytesIO(enc), nonce_offset=10)
xf.seek(0)
print(xf.read(-1)==plain, xf.tell(), len(plain))
xf.seek(0); a=xf.read(3); print(a==plain[:3], xf.tell()); b=xf.read(3); print(b, plain[3:6], xf.tell())
xf.seek(5); print(xf.tell(), xf.read(1)==plain[5:6], xf.tell())
xf.seek(0); print(xf.read(0), xf.tell())
xf.seek(1); print(xf.read(4)==plain[1:5], xf.tell())
xf.seek(2); print(xf.read(9)==plain[2:11], xf.tell())
xf.seek(-5, 2); print(xf.tell(), xf.read()==plain[-5:], xf.tell())
xf.seek(100); xf.seek(3,1); print(xf.tell())
xf.seek(len(plain)+10); print(xf.read(5), xf.tell())
print(xf.seek(7), xf.seek(0,1))
