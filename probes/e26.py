import re, time, random, sys
sys.setrecursionlimit(10000)
exec(open("e25.py").read().split("bad=[]")[0])
random.seed(int(sys.argv[1]) if len(sys.argv)>1 else 0)
LIT = ['"v"', '"a b"', '"\\x41\\\\"', '"q\\"q"', '"#;{}"', '""', '"default"', '"multi\nline"', '"\\u0041"']
def gen_rule(rule, depth):
    exps = [e for e in rules[rule] if "dns_resolver" not in e]
    e = random.choice(exps)
    return gen_exp(e, depth)
def gen_exp(e, depth):
    exp = e.split("->")[0].strip()
    parts = re.findall(r'"[^"]*"|[a-zA-Z_]+[*?]?|~ 1', exp)
    out=[]
    for p in parts:
        if p.startswith('"'): out.append(p[1:-1])
        elif p=="string": out.append(random.choice(LIT))
        elif p=="OPTION": out.append(random.choice(["jitter","sleeptime","useragent","pipename","tasks_max_size"]))
        elif p=="variant?":
            if random.random()<0.4: out.append(random.choice(['"variant1"','"default"','"x y"']))
        elif p=="~ 1": pass
        elif p.endswith("*"):
            r=p[:-1]; k = random.choice([0,0,1,2,3,5]) if depth<4 else 0
            for _ in range(k): out.append(gen_rule(r, depth+1))
        elif p=="steps": 
            for _ in range(random.choice([0,1,2,4])): out.append(gen_rule("transform_statement", depth+1))
        elif p=="termination": out.append(gen_rule("termination_statement", depth+1))
        elif p in rules: out.append(gen_rule(p, depth+1))
        else: out.append("<"+p+">")
    return " ".join(out)
rules["data_transform"]=["steps termination"]
bad=[]; n=0; t0=time.time()
while time.time()-t0 < 60:
    src = " ".join(gen_rule("value",0) for _ in range(random.choice([1,2,3,6])))
    n+=1
    try:
        p = C2Profile.from_text(src); txt = p.as_text()
        a, b = toks(src), toks(txt)
        p2 = C2Profile.from_text(txt)
        if a!=b or p2.tree!=p.tree:
            if "module_x64" in src: continue
            bad.append((src, txt.replace("\n"," ")))
        d = p.as_dict()
    except Exception as ex:
        bad.append((src, "EXC "+type(ex).__name__+": "+str(ex)[:150]))
print(n, "profiles,", len(bad), "bad")
for b in bad[:8]: print(b, "\n")
