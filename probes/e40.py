import random, struct, collections, signal, logging
logging.disable(logging.CRITICAL)
from dissect.cobaltstrike.beacon import BeaconConfig, SETTING_TO_PRETTYFUNC, BeaconSetting
random.seed(4)
PRETTY={int(k.value) for k in SETTING_TO_PRETTYFUNC}
def ref_parse(b):
    out=[]; p=0
    while True:
        if b[p:p+2]==b"\0\0": break
        if len(b)-p<6: break
        i,t,l=struct.unpack_from(">HHH",b,p)
        if len(b)-p-6<l: break
        v=b[p+6:p+6+l]; p+=6+l
        if i==9 and l==0x80 and not v.endswith(b"\0"):
            q=b.find(b"\0",p)
            if q==-1: return None   # D1 territory
            v+=b[p:q]; p=q
        out.append((i,t,l,v))
    return out
def handler(*a): raise TimeoutError()
signal.signal(signal.SIGALRM, handler)
res=collections.Counter(); shown=0
for it in range(20000):
    parts=[]; 
    for _ in range(random.randrange(0,10)):
        i=random.choice([1,2,3,7,8,9,9,16,17,36,37,48,75,78,79,1234,65535, random.randrange(1,80)])
        t=random.choice([0,1,2,3,3,7])
        l=random.choice([0,1,2,3,4,16,0x80,255,300])
        v=bytes(random.choice(b"\0\0AB\xff") if random.random()<.5 else random.randrange(1,256) for _ in range(l))
        parts.append(struct.pack(">HHH",i,t,l)+v)
    blk=b"".join(parts)+random.choice([b"", b"\0\0", b"\0\0garbage"+struct.pack(">HHH",2,1,2)+b"zz", b"\0", b"\x00\x02\x00", struct.pack(">HHH",2,1,50)+b"ab"])
    exp=ref_parse(blk)
    if exp and len({(t==1) for i,t,l,v in exp if i==36})>1: res['skip-dual36']+=1; continue
    if exp is None: res["skip-D1"]+=1; continue
    signal.alarm(5)
    try: c=BeaconConfig(blk)
    except TimeoutError: res["HANG"]+=1; continue
    finally: signal.alarm(0)
    got=[(s.index.value, s.type.value, s.length, s.value) for s in c.settings_tuple]
    ok = got==exp
    # views
    if ok and exp:
        names=list(c.raw_settings.items()); consts=list(c.raw_settings_by_index.items()); enums=list(c.settings_map("enum", parse=True).items())
        last={}; order=[]
        for i,t,l,v in exp:
            if i not in last: order.append(i)
            last[i]=(t,v)
        if [k for k,_ in consts]!=order or [v for _,v in names]!=[v for _,v in consts] or [int(k.value) for k,_ in enums]!=order or [v for _,v in enums]!=[v for _,v in consts]: ok=False; res["views-disagree"]+=1
        for (k,v) in consts:
            t,raw=last[k]
            e = int.from_bytes(raw,"big") if (t==1 and len(raw)==2) or (t==2 and len(raw)==4) else (raw if t not in (1,2) else None)
            if e is not None and v!=e: ok=False; res["value"]+=1
        if c.setting_enums!=[e[0] for e in exp] or c.max_setting_enum!=max(e[0] for e in exp): ok=False
        # pretty where no printer
        try:
            pv=c.settings_by_index
            for k,v in consts:
                if k not in PRETTY and pv[k]!=v: ok=False; res["pretty-differs"]+=1
            res["pretty-ok"]+=1
        except Exception as e: res["pretty-skipped:"+type(e).__name__]+=1
    res["ok" if ok else "MISMATCH"]+=1
    if not ok and shown<3: shown+=1; print("MISMATCH", [e[:3] for e in exp], [g[:3] for g in got])
print(dict(res))
