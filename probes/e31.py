import random, struct, io, itertools, csv
from dissect.cobaltstrike import utils, version, artifact
from dissect.cobaltstrike.utils import *
random.seed(7)
# xor
bad=0
for _ in range(20000):
    d=bytes(random.randrange(256) for _ in range(random.randrange(0,40))); k=bytes(random.randrange(256) for _ in range(random.randrange(0,50)))
    try: r=xor(d,k)
    except Exception as e: print("xor EXC", d,k,type(e).__name__,e); bad+=1; continue
    exp = d if not any(k) else bytes(b^k[i%len(k)] for i,b in enumerate(d))
    if r!=exp or xor(r,k)!=d: bad+=1; print("xor mismatch", d,k,r)
print("xor bad", bad)
# netbios
bad=0
for off in (0,1,0x41,0x61,200,240):
    for _ in range(500):
        d=bytes(random.randrange(256) for _ in range(random.randrange(0,30)))
        e=netbios_encode(d,off)
        if netbios_decode(e,off)!=d or len(e)!=2*len(d): bad+=1
print("netbios bad", bad)
# pack/unpack
bad=0
for size,p,u in ((1,p8,u8),(2,p16,u16),(4,p32,u32),(8,p64,u64)):
    for n in (0,1,2**(8*size)-1, 2**(8*size-1), random.randrange(2**(8*size))):
        if u(p(n))!=n: bad+=1
for size,p,u in ((2,p16be,u16be),(4,p32be,u32be),(8,p64be,u64be)):
    for n in (0,1,2**(8*size)-1, random.randrange(2**(8*size))):
        if u(p(n))!=n or p(n)!=n.to_bytes(size,'big'): bad+=1
for n in (-1,-128,127,-2**31, 2**31-1):
    for bo in ("little","big"):
        b=pack(n, size=8, byteorder=bo, signed=True)
        if unpack(b, byteorder=bo, signed=True)!=n: bad+=1
print("pack free width:", pack(0), pack(255), pack(256), pack_be(0x1234), unpack(b""), "bad", bad)
# checksum8 / stagers exhaustive over small alphabet
alpha="/aA0zZ9_-.~b"
bad=0; n=0
for L in range(0,6):
    for t in itertools.product(alpha, repeat=L):
        s="".join(t); n+=1
        c = 0 if len(s)<4 else sum(ord(ch) for ch in s if ch!="/")%256
        import re
        x86 = c==92; x64 = c==93 and len(s)==5 and s[0]=="/" and all(ch.isascii() and ch.isalnum() for ch in s[1:])
        if checksum8(s)!=c or is_stager_x86(s)!=x86 or is_stager_x64(s)!=x64: bad+=1; print("uri mismatch", repr(s))
print("uris", n, "bad", bad)
for L in (3,4,5,10,64):
    for _ in range(50):
        u=random_stager_uri(length=L); assert is_stager_x86(u) and len(u)==L+1, u
for _ in range(200):
    u=random_stager_uri(x64=True); assert is_stager_x64(u) and len(u)==5
for args in (dict(length=2), dict(x64=True,length=5)):
    try: random_stager_uri(**args); print("no error", args)
    except ValueError as e: print("ValueError ok", args)
# version tables
def key(v): b=version.BeaconVersion(v); return (b.tuple + (0,))[:3], b.date
for name, tbl in (("stamp", version.PE_EXPORT_STAMP_TO_VERSION), ("enum", version.MAX_ENUM_TO_VERSION)):
    ks=sorted(tbl); mono = all(key(tbl[a])[0] <= key(tbl[b])[0] and key(tbl[a])[1] <= key(tbl[b])[1] for a,b in zip(ks,ks[1:]))
    print(name, "monotone", mono, len(ks))
rows=list(csv.DictReader(open("/repo/docs/cobaltstrike-beacon-versions.csv")))
print("csv agree", all(version.PE_EXPORT_STAMP_TO_VERSION.get(int(r["Export Stamp"]))==r["Cobalt Strike version"] for r in rows), len(rows), len(version.PE_EXPORT_STAMP_TO_VERSION))
# artifactkit
bad=0
for _ in range(300):
    n=random.randrange(20,400); d=bytearray(random.randrange(256) for _ in range(n))
    for _ in range(random.randrange(0,3)):
        p=random.randrange(0,n-4); d[p:p+4]=struct.pack("<I",p+16)
    d=bytes(d)
    exp=[p for p in range(0,len(d)-3) if struct.unpack_from("<I",d,p)[0]==p+16]
    got=list(artifact.iter_artifactkit_payloads(io.BytesIO(d)))
    if [g.offset for g in got]!=exp: bad+=1; print("ak offsets", [g.offset for g in got], exp)
    for g in got:
        size=struct.unpack_from("<I",d,g.offset+4)[0] if len(d)>=g.offset+8 else int.from_bytes(d[g.offset+4:g.offset+8],"little"); k=d[g.offset+8:g.offset+12]; data=d[g.offset+20:g.offset+20+size]
        e = data if not any(k) else bytes(b^k[i%len(k)] for i,b in enumerate(data))
        if g.payload!=e or g.xorkey!=k or g.size!=size: bad+=1
print("artifactkit bad", bad)
