import random, struct, io, os, collections, types, tempfile
exec(open("e23.py").read().split("cfg = S(1,1")[0])
from dissect.cobaltstrike import beacon as B, utils as U
from dissect.cobaltstrike.beacon import BeaconConfig
import io as real_io
class IoProxy:
    def __init__(self, bs): self.DEFAULT_BUFFER_SIZE=bs
    def __getattr__(self, n): return getattr(real_io, n)
HDR=b"\x00\x01\x00\x01\x00\x02\x00"
def rx(d,k): return bytes(b^k for b in d)
def mkcfg(rng):
    out=S(1,1,struct.pack(">H",rng.choice([0,1,2,4,8])))
    for _ in range(rng.randrange(0,8)):
        out+=S(rng.choice([2,3,5,9,10,26,37,1234]), rng.choice([1,2,3]), bytes(rng.randrange(256) for _ in range(rng.choice([2,4,7,30]))))
    return out
def filler(rng,n):
    b=bytearray(rng.getrandbits(8) for _ in range(n))
    for i in range(len(b)):
        if b[i]==0xff: b[i]=0x7f
    return bytes(b)
def naive(view, keys):
    for k in keys:
        p=view.find(rx(HDR,k[0]))
        if p!=-1: return p,k
    return None
res=collections.Counter(); shown=0
for it in range(600):
    rng=random.Random(it)
    bs=rng.choice([1,2,3,5,7,8,64,4096,8191,8192,8193])
    U.io=IoProxy(bs); B.io=IoProxy(bs)
    key=rng.randrange(256)
    keys=rng.choice([None, [bytes([key])], [bytes([rng.randrange(256)]), bytes([key])], [b"\x00", b"\x69"], None])
    allk=rng.random()<0.3
    blocks=[]
    cfgs=[mkcfg(rng) for _ in range(rng.choice([1,1,2,3]))]
    n=rng.choice([0, 10, 8192, 20000]) if bs>=64 else rng.choice([0,10,300])
    body=bytearray(filler(rng, n+rng.randrange(0,9000 if bs>=64 else 200)))
    for ci,c in enumerate(cfgs):
        k = key if ci==0 else rng.randrange(256)
        if bs>=64: off=rng.choice([0, len(body)-10 if len(body)>10 else 0, max(0,bs*rng.randrange(0,3)+rng.randrange(-8,9)), rng.randrange(0,len(body)+1)])
        else: off=rng.randrange(0,len(body)+1)
        off=max(0,min(off,len(body)))
        blk=rx(c.ljust(4096,b"\0"),k)
        if rng.random()<0.15: body[off:]=blk[:rng.randrange(7,4096)]   # truncated by EOF
        else: body[off:off+4096]=blk
    raw=bytes(body)
    layout=rng.choice(["raw","raw","pe","xorpe"])
    if layout=="raw": payload=raw; views=[("raw",raw)]
    else:
        img=build_pe(rng.choice(["x86","x64"]), data=raw)
        if layout=="pe": payload=img; views=[("raw",img)]
        else:
            payload=xorencode(img, bytes(rng.randrange(256) for _ in range(4)), stub=filler(rng, rng.randrange(0,300)))
            views=[("xor",img),("raw",payload)]
    klist = keys or [b"\x69",b"\x2e",b"\x00"]
    exp=None
    for vname,v in views:
        r=naive(v,klist)
        if r: exp=(vname,)+r; break
    explicit_found = exp is not None
    if exp is None and allk:
        left=[bytes([x]) for x in range(256) if bytes([x]) not in klist]
        cands=[]
        for vname,v in views:
            for k in left:
                p=v.find(rx(HDR,k[0]))
                if p!=-1: cands.append((vname,p,k))
            if cands: break
        exp = cands or None
    try:
        c=BeaconConfig.from_bytes(payload, xor_keys=keys, all_xor_keys=allk); got=("ok",c)
    except ValueError as e: got=("ValueError",None)
    except Exception as e: got=(type(e).__name__+":"+str(e)[:40],None)
    if exp is None: ok = got[0]=="ValueError"
    elif got[0]!="ok": ok=False
    else:
        c=got[1]
        if explicit_found: cl=[exp]
        else: cl=exp
        ok=False
        for vname,p,k in cl:
            v=dict(views)[vname]
            if c.config_block==rx(v[p:p+4096],k[0]) and c.xorkey==k and c.xorencoded==(vname=="xor"): ok=True
    res[(ok, layout, "bs%4==0" if bs%4==0 else "bs%4!=0", "none" if exp is None else "some")]+=1
    if not ok and shown<0:
        shown+=1; print("MISMATCH it",it,"bs",bs,"layout",layout,"keys",keys,"allk",allk,"exp",exp if exp is None or explicit_found else exp[:2],"got",got[0], (got[1].xorkey, got[1].xorencoded) if got[1] else None, "len",len(payload))
for k,v in sorted(res.items(), key=str): print(k,v)
