import io, collections
from load import *
from dissect.cobaltstrike.beacon import BeaconConfig
from dissect.cobaltstrike import pe, guardrails, xordecode, artifact
import tempfile, os
def classify(f, *a, **k):
    try:
        r = f(*a, **k); return "ok"
    except ValueError as e: return "ValueError:"+type(e).__name__
    except BaseException as e: return type(e).__name__+":"+str(e)[:60]
d = load("dns")   # raw, not xorencoded
res=collections.Counter()
import random; random.seed(3)
cuts = sorted(set([0,1,2,5,6,7,10,63,64,65,70,100,128,200,255,256,300,320,400,500,600,700,1000,1024,1030,2000,4096]+[random.randrange(len(d)) for _ in range(60)]))
for cut in cuts:
    t = d[:cut]
    r = classify(BeaconConfig.from_bytes, t, xor_keys=[b"\xaf"])
    res[r]+=1
    if not (r=="ok" or r.startswith("ValueError")): print("cut",cut,r)
print(res)
# PE helpers on truncations
for fn in (pe.find_compile_stamps, pe.find_magic_mz, pe.find_magic_pe, pe.find_stage_prepend_append, pe.find_architecture, pe.find_mz_offset):
    res=collections.Counter()
    for cut in cuts:
        res[classify(fn, io.BytesIO(d[:cut]))]+=1
    print(fn.__name__, dict(res))
# guardrails truncations
g = load("guard")
c = BeaconConfig.from_bytes(g); gm = c.guardrails
print("guard offsets", gm.beacon_config_offset, gm.guard_config_offset, gm.payload_xor_key, [ (s.option, s.type, s.length, s.value) for s in gm.settings], hex(gm.checksum))
print("unmasked guard cfg head", gm.unmasked_guard_config[:64])
print("cfg len nonzero", len(c.config_block), len(c.config_block.rstrip(b"\x00")))
