import random, struct, collections, hashlib, ipaddress
from dissect.cobaltstrike.beacon import BeaconConfig
random.seed(3)
def S(i,t,v): return struct.pack(">HHH", i,t,len(v))+v
OPC={"APPEND":1,"PREPEND":2,"BASE64":3,"PRINT":4,"PARAMETER":5,"HEADER":6,"BUILD":7,"NETBIOS":8,"_PARAMETER":9,"_HEADER":10,"NETBIOSU":11,"URI_APPEND":12,"BASE64URL":13,"MASK":15,"_HOSTHEADER":16}
ARG={"APPEND","PREPEND","PARAMETER","HEADER","_PARAMETER","_HEADER","_HOSTHEADER"}
def enc_prog(prog, tail):
    out=b""
    for op,arg in prog:
        out+=struct.pack(">I",OPC[op])
        if op=="BUILD": out+=struct.pack(">I",arg)
        elif op in ARG: out+=struct.pack(">I",len(arg))+arg
    return out+tail
def rb(n): return bytes(random.randrange(256) for _ in range(random.randrange(0,n)))
bad=collections.Counter(); n=0
for it in range(20000):
    prog=[]
    for _ in range(random.randrange(0,12)):
        op=random.choice(list(OPC))
        prog.append((op, random.choice([0,1]) if op=="BUILD" else (rb(12) if op in ARG else True)))
    tail=random.choice([b"", b"\0\0\0\0", b"\0"*8+b"junk", b"\0\0\0\0\0\0\0\x07"])
    build = random.choice(["metadata","id"])
    idx = 12 if build=="metadata" else 13
    blk=S(1,1,b"\0\0")+S(idx,3,enc_prog(prog,tail))
    exp=[(op, ({0:build,1:"output"}[a] if op=="BUILD" else a)) for op,a in prog]
    got=BeaconConfig(blk).settings["SETTING_C2_REQUEST" if idx==12 else "SETTING_C2_POSTREQ"]
    n+=1
    if got!=exp: bad["transform"]+=1; 
    if got!=exp and bad["transform"]<3: print("T mismatch", prog, tail, got)
    # recover
    R={"append":1,"prepend":2,"base64":3,"print":4,"netbios":8,"netbiosu":11,"base64url":13,"mask":15}
    rp=[]
    for _ in range(random.randrange(0,8)):
        op=random.choice(list(R)); rp.append((op, random.choice([0,1,5,2**32-1,random.randrange(2**32)]) if op in("append","prepend") else True))
    data=b"".join(struct.pack(">I",R[o])+(struct.pack(">I",a) if o in ("append","prepend") else b"") for o,a in rp)+random.choice([b"",b"\0\0\0\0",b"\0\0\0\0\0\0\0\x03"])
    got=BeaconConfig(S(1,1,b"\0\0")+S(11,3,data)).settings["SETTING_C2_RECOVER"]
    if got!=rp: bad["recover"]+=1
    if got!=rp and bad["recover"]<3: print("R mismatch", rp, got)
    # execute list
    names={1:"CreateThread",2:"SetThreadContext",3:"CreateRemoteThread",4:"RtlCreateUserThread",5:"NtQueueApcThread",8:"NtQueueApcThread_s"}
    el=[]; data=b""
    for _ in range(random.randrange(0,8)):
        c=random.choice([1,2,3,4,5,6,7,8])
        if c in (6,7):
            off=random.choice([0,1,0x10,0xffff]); m="mod%d.dll"%random.randrange(9); f="Func%d"%random.randrange(9)
            data+=bytes([c])+struct.pack(">H",off)+struct.pack(">I",len(m)+1)+m.encode()+b"\0"+struct.pack(">I",len(f)+1)+f.encode()+b"\0"
            el.append('%s "%s!%s%s"'%({6:"CreateThread",7:"CreateRemoteThread"}[c], m,f, "+0x%x"%off if off else ""))
        else: data+=bytes([c]); el.append(names[c])
    data+=random.choice([b"", b"\0", b"\0\x01\x02"])
    got=BeaconConfig(S(1,1,b"\0\0")+S(51,3,data)).settings["SETTING_PROCINJ_EXECUTE"]
    if got!=el: bad["exec"]+=1
    if got!=el and bad["exec"]<3: print("E mismatch", el, got)
    # gargle, pivot, strings, pubkey, dns idle
    pairs=[(random.randrange(2**32), random.randrange(2**32)) if random.random()<.8 else (0,0) for _ in range(random.randrange(0,6))]
    g=b"".join(struct.pack("<II",a,b) for a,b in pairs)
    got=BeaconConfig(S(1,1,b"\0\0")+S(42,3,g)).settings["SETTING_GARGLE_SECTIONS"]
    if got!=["0x%x-0x%x"%(a,b) for a,b in pairs if (a,b)!=(0,0)]: bad["gargle"]+=1
    hdr=rb(20); fr=struct.pack(">H",len(hdr)+4)+hdr+b"\0"*random.randrange(0,20)
    got=BeaconConfig(S(1,1,b"\0\0")+S(58,3,fr)).settings["SETTING_TCP_FRAME_HEADER"]
    if got!=hdr: bad["pivot"]+=1
    s=rb(30)+b"\0"*random.randrange(0,5)+rb(5)
    got=BeaconConfig(S(1,1,b"\0\0")+S(10,3,s)).settings["SETTING_SUBMITURI"]
    if got!=s.split(b"\0")[0].decode("latin-1"): bad["str"]+=1
    ip=random.randrange(2**32)
    if BeaconConfig(S(1,1,b"\0\0")+S(19,2,struct.pack(">I",ip))).settings["SETTING_DNS_IDLE"]!=str(ipaddress.IPv4Address(ip)): bad["ip"]+=1
print(n, dict(bad))
