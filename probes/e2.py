import io
from dissect.cobaltstrike.utils import iter_find_needle
def naive(h, n, start=0):
    out=[];i=h.find(n,start)
    while i!=-1:
        out.append(i); i=h.find(n,i+1)
    return out
import dissect.cobaltstrike.utils as U
# 1. initial zeros
h=b"\x01\x00\x01\x00\x02\x00AAAA"
print("zero-prefix needle at start:", list(iter_find_needle(io.BytesIO(h), b"\x00\x01\x00\x01\x00\x02\x00", 0)), naive(h,b"\x00\x01\x00\x01\x00\x02\x00"))
h=b"UUUUU\x41zz"
print("start_offset false pos:", list(iter_find_needle(io.BytesIO(h), b"\x00\x41", 5)), naive(h,b"\x00\x41",5))
# single byte needle
h=b"abcabc"
print("single byte:", list(iter_find_needle(io.BytesIO(h), b"a", 0)), naive(h,b"a"))
# small buffer
io_def = io.DEFAULT_BUFFER_SIZE
import random
random.seed(1)
bad=0
for bs in (1,2,3,4,5,7,8,16):
    U.io.DEFAULT_BUFFER_SIZE = bs
    for _ in range(2000):
        h=bytes(random.choice(b"ab") for _ in range(random.randrange(0,20)))
        n=bytes(random.choice(b"ab") for _ in range(random.randrange(2,5)))
        got=list(iter_find_needle(io.BytesIO(h), n, 0)); exp=naive(h,n)
        if got!=exp:
            bad+=1
            if bad<5: print("MISMATCH bs",bs,h,n,got,exp)
print("bad",bad)
import io as _io
print(_io.DEFAULT_BUFFER_SIZE)
