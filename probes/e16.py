from load import *
import logging
from dissect.cobaltstrike.beacon import BeaconConfig
from dissect.cobaltstrike.client import HttpBeaconClient, BeaconCommand
from dissect.cobaltstrike.c2 import encrypt_metadata, TaskPacket
c = BeaconConfig.from_bytes(load("c2test"))
cl = HttpBeaconClient()
calls=[]
@cl.handle(BeaconCommand.COMMAND_SLEEP)
def h1(task): calls.append("h1")
@cl.catch_all()
def ca(task): calls.append("ca")
class Sub(HttpBeaconClient):
    def on_sleep(self, task): calls.append("on_sleep")
    def on_catch_all(self, task): calls.append("on_catch_all")
s = Sub(); s.register_task(4, h1); s.register_task(-1, ca)
for i in range(3):
    print("base sleep", len(cl.get_handlers(4)), "pwd", len(cl.get_handlers(39)), "| sub sleep", len(s.get_handlers(4)), "pwd", len(s.get_handlers(39)), "none", len(s.get_handlers(None)))
try: cl.get_handlers(200)
except Exception as e: print("unknown cmd:", type(e).__name__, e)
logging.disable(logging.CRITICAL)
r = cl.run(c, dry_run=True, beacon_id=1234, user="José Álvarez 中文中文中文", computer="ÜBER-PC-éééééééééé", process="svchost.exe")
print(len(cl.metadata.info), cl.beacon_id, cl.c2http.pub.size_in_bytes())
try: encrypt_metadata(cl.metadata, cl.c2http.pub); print("fits")
except Exception as e: print("EXC", type(e).__name__, e)
for bid in (-1, 0, 1, 2**31-1, 2**31, 2**32+5, -2**40, 10**30):
    try: cl.run(c, dry_run=True, beacon_id=bid); print(bid, "->", cl.beacon_id, cl.aes_rand.hex()[:8])
    except Exception as e: print(bid, "EXC", type(e).__name__, e)
cl.run(c, dry_run=True, beacon_id=10, sleeptime=1000, jitter=50)
xs=[cl.get_sleep_time() for _ in range(10000)]; print(min(xs), max(xs))
