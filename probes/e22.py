from load import load
import os
from dissect.cobaltstrike.beacon import BeaconConfig
from dissect.cobaltstrike.c2profile import C2Profile
from dissect.cobaltstrike.c2 import HttpDataTransform, C2Data, HttpResponse
c = BeaconConfig.from_bytes(load("custom"), xor_keys=[b"\xcc"])
rec = c.settings["SETTING_C2_RECOVER"]
print([ (k, v if v is True else v) for k,v in rec])
p = C2Profile.from_beacon_config(c)
steps = C2Profile.from_text(p.as_text()).as_dict()["http-get.server.output"]
print([s if isinstance(s,str) else (s[0], len(s[1])) for s in steps])
# profile semantics: steps in written order, applied to output
prog = [("BUILD","output")] + [ (s,True) if isinstance(s,str) else s for s in steps]
t = HttpDataTransform(prog)
payload = os.urandom(48)
req = t.transform(C2Data(output=payload))
resp = HttpResponse(status=200, headers={}, reason=b"OK", body=req.body)
lib = HttpDataTransform(list(rec), reverse=True, build="output")
try:
    back = lib.recover(resp); print("recovered equals payload:", back.output == payload)
except Exception as e: print("recover EXC", type(e).__name__, e)
# reversed order
prog2 = [("BUILD","output")] + [ (s,True) if isinstance(s,str) else s for s in steps[:-1][::-1]] + [("print",True)]
req = HttpDataTransform(prog2).transform(C2Data(output=payload))
back = HttpDataTransform(list(rec), reverse=True, build="output").recover(HttpResponse(200, {}, b"OK", req.body))
print("with reversed steps:", back.output == payload)
