import io, signal
from dissect.cobaltstrike import beacon
from dissect.cobaltstrike.beacon import BeaconConfig, Setting, BeaconSetting, SettingsType
def S(i,t,v): 
    return i.to_bytes(2,'big')+t.to_bytes(2,'big')+len(v).to_bytes(2,'big')+v
# UA infinite loop
blk = S(1,1,b"\x00\x08")+S(9,3,b"A"*128)
def handler(*a): raise TimeoutError("hang")
signal.signal(signal.SIGALRM, handler); signal.alarm(3)
try:
    c = BeaconConfig(blk); print("UA no NUL at EOF ok", c.settings_tuple[-1].value[-5:])
except BaseException as e: print("UA:", type(e).__name__, e)
signal.alarm(0)
# UA continuation normal
blk = S(1,1,b"\x00\x08")+S(9,3,b"A"*128)+b"BBBB\x00\x00\x00"+S(2,1,b"\x01\xbb")
c=BeaconConfig(blk); print([ (s.index, s.type, s.length, s.value[-8:]) for s in c.settings_tuple])
# alias index 16 pretty
blk = S(1,1,b"\x00\x08")+S(16,1,(2020).to_bytes(2,'big'))+S(17,1,(12).to_bytes(2,'big'))+S(18,1,(31).to_bytes(2,'big'))
c=BeaconConfig(blk); print(dict(c.settings), dict(c.raw_settings), c.killdate)
# index 36
blk = S(1,1,b"\x00\x08")+S(36,1,b"\x00\x05")
c=BeaconConfig(blk); print(dict(c.settings), dict(c.settings_by_index), c.setting_enums)
blk = S(1,1,b"\x00\x08")+S(36,3,b"abc\x00\x00")
c=BeaconConfig(blk); print(dict(c.settings), dict(c.settings_by_index), c.setting_enums)
# unknown index, unknown type
blk = S(1,1,b"\x00\x08")+S(1234,7,b"zz")+S(75,0,b"")
c=BeaconConfig(blk); print(dict(c.settings), dict(c.raw_settings_by_index), [ (s.index, s.type) for s in c.settings_tuple], c.setting_enums, c.max_setting_enum)
print(c.settings_map("enum"))
# beacon gate
blk = S(1,1,b"\x00\x08")+S(78,3,b"\x01"*23+b"\x00"*41)
c=BeaconConfig(blk)
try: print(c.settings)
except Exception as e: print("gate:", type(e).__name__, e)
# duplicates
blk = S(1,1,b"\x00\x08")+S(2,1,b"\x00\x50")+S(2,1,b"\x01\xbb")
c=BeaconConfig(blk); print(dict(c.settings), c.setting_enums)
# trailing after terminator
blk = S(1,1,b"\x00\x08")+b"\x00\x00"+S(2,1,b"\x01\xbb")
c=BeaconConfig(blk); print(dict(c.settings), c.setting_enums)
# length beyond block
blk = S(1,1,b"\x00\x08")+ (2).to_bytes(2,'big')+(1).to_bytes(2,'big')+(50).to_bytes(2,'big')+b"ab"
c=BeaconConfig(blk); print(dict(c.settings), c.setting_enums)
# odd trailing byte
blk = S(1,1,b"\x00\x08")+b"\x07"
c=BeaconConfig(blk); print(dict(c.settings), c.setting_enums)
