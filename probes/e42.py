import random, struct, collections, logging
logging.disable(logging.CRITICAL)
from dissect.cobaltstrike import beacon
from dissect.cobaltstrike.beacon import BeaconConfig
from dissect.cobaltstrike.c2profile import C2Profile, string_token_to_bytes
from lark import Token
def S(i,t,v): return struct.pack(">HHH", i,t,len(v))+v
OPC={"APPEND":1,"PREPEND":2,"BASE64":3,"PRINT":4,"PARAMETER":5,"HEADER":6,"BUILD":7,"NETBIOS":8,"_PARAMETER":9,"_HEADER":10,"NETBIOSU":11,"URI_APPEND":12,"BASE64URL":13,"MASK":15,"_HOSTHEADER":16}
ARG={"APPEND","PREPEND","PARAMETER","HEADER","_PARAMETER","_HEADER","_HOSTHEADER"}
def enc_prog(prog):
    out=b""
    for op,arg in prog:
        out+=struct.pack(">I",OPC[op])
        if op=="BUILD": out+=struct.pack(">I",arg)
        elif op in ARG: out+=struct.pack(">I",len(arg))+arg
    return out+b"\0"*4
CLASSES={"plain":b"abcXYZ019-_=./", "quote":b'ab"', "bslash":b"ab\\", "high":b"a\xe9\xff", "ctrl":b"a\n\t\x01", "syntax":b"a;{}#'"}
def val(rng, cls, n=6, trail=None):
    v=bytes(rng.choice(CLASSES[cls]) for _ in range(rng.randrange(1,n)))
    if trail=="bslash": v+=b"\\"
    return v
def dec(tok): return string_token_to_bytes(Token("STRING", '"'+tok+'"')) if isinstance(tok,str) else tok
res=collections.Counter(); ex={}
for it in range(3000):
    rng=random.Random(it)
    cls=rng.choice(list(CLASSES)); trail=rng.choice([None,None,"bslash"]) if cls=="bslash" else None
    a_get=val(rng,cls,trail=trail); a_post=val(rng,cls,trail=trail); hk=val(rng,"plain"); hv=val(rng,cls,trail=trail); pk=val(rng,"plain"); pv=val(rng,cls,trail=trail)
    ua=val(rng, cls if cls not in("high","ctrl") else "plain", 10, trail); 
    get=[("_HEADER",hk+b": "+hv),("_PARAMETER",pk+b"="+pv),("BUILD",0),("BASE64",True),("PREPEND",a_get),("HEADER",b"Cookie")]
    post=[("_HEADER",hk+b": "+hv),("BUILD",0),("PARAMETER",b"id"),("BUILD",1),("MASK",True),("APPEND",a_post),("PRINT",True)]
    rec=struct.pack(">I",4)+struct.pack(">II",1,3)+struct.pack(">I",13)+b"\0"*4
    blk=(S(1,1,b"\0\0")+S(3,2,struct.pack(">I",5000))+S(5,1,b"\0\x0a")+S(8,3,b"a.com,/x\0")+S(9,3,ua+b"\0")+S(10,3,b"/submit\0")+S(11,3,rec)+S(12,3,enc_prog(get))+S(13,3,enc_prog(post))+S(26,3,b"GET\0")+S(27,3,b"POST\0"))
    c=BeaconConfig(blk)
    try: p=C2Profile.from_beacon_config(c); txt=p.as_text()
    except Exception as e: res[(cls,trail,"GEN-EXC "+type(e).__name__)]+=1; continue
    try: d=C2Profile.from_text(txt).as_dict()
    except Exception as e: res[(cls,trail,"REPARSE-FAIL")]+=1; ex.setdefault((cls,trail,"REPARSE"),txt[:300]); continue
    f=[]
    try:
        if dec(d["useragent"][0])!=ua: f.append("ua")
        md=d["http-get.client.metadata"]; 
        if md!=["base64",("prepend",a_get),("header",b"Cookie")]: f.append("get-steps")
        if d["http-post.client.output"]!=["mask",("append",a_post),"print"]: f.append("post-steps")
        h=d["http-get.client.header"][0]
        if (dec(h[0]),dec(h[1]))!=(hk,hv): f.append("get-header")
        h=d["http-post.client.header"][0]
        if (dec(h[0]),dec(h[1]))!=(hk,hv): f.append("post-header")
        q=d["http-get.client.parameter"][0]
        if (dec(q[0]),dec(q[1]))!=(pk,pv): f.append("get-param")
    except Exception as e: f.append("KEY-EXC "+type(e).__name__+str(e)[:30])
    res[(cls,trail,"ok" if not f else ",".join(f))]+=1
for k,v in sorted(res.items(), key=str): print(v,k)
for k,v in ex.items(): print(k, repr(v))
