import sys, logging, struct
from load import load
import httpx
from Crypto.PublicKey import RSA
from dissect.cobaltstrike.beacon import BeaconConfig
from dissect.cobaltstrike import client as cl, c2
logging.disable(logging.CRITICAL)
priv = RSA.generate(1024)
d = load("x86"); cfg = BeaconConfig.from_bytes(d)
# rebuild config block with our pubkey
blk = bytearray(cfg.config_block)
der = priv.publickey().export_key("DER")
old = cfg.raw_settings["SETTING_PUBKEY"]; i = bytes(blk).find(old); blk[i:i+len(old)] = der.ljust(len(old), b"\x00")
cfg = BeaconConfig(bytes(blk))
wire=[]
def fake_request(method, url, *, headers=None, params=None, content=None, verify=None, **kw):
    req = httpx.Request(method, url, headers=headers, params=params, content=content)
    m = req.method if isinstance(req.method, bytes) else req.method.encode()
    raw = m+b" "+req.url.raw_path+b" HTTP/1.1\r\n"+b"".join(k+b": "+v+b"\r\n" for k,v in req.headers.raw)+b"\r\n"+req.read()
    wire.append(raw)
    return httpx.Response(200, content=b"", request=req)
cl.httpx.request = fake_request
c = cl.HttpBeaconClient()
c.run(cfg, dry_run=True, beacon_id=1234, user="u", computer="c", process="p.exe")
print("task:", c.get_task())
c.send_callback(cl.BeaconCallback.CALLBACK_OUTPUT, b"hello output")
for w in wire: print(w[:400])
dec = c2.C2Http(cfg, rsa_private_key=priv)
for w in wire:
    print([type(p).__name__ + ":" + repr(p)[:120] for p in dec.iter_recover_http(w)])
