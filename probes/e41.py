import random, logging, types, collections, time as _time
from load import load
from dissect.cobaltstrike.beacon import BeaconConfig
from dissect.cobaltstrike import client as cl
from dissect.cobaltstrike.client import HttpBeaconClient, BeaconCommand, TaskPacket, BeaconCallback
logging.disable(logging.CRITICAL)
cfg = BeaconConfig.from_bytes(load("c2test"))
class Stop(BaseException): pass
def drive(client, commands):
    log=[]; sleeps=[]; sent=[]
    tasks=[]
    for c in commands:
        if c is None: tasks.append(None)
        else:
            t=TaskPacket(); t.epoch=1; t.command=BeaconCommand(c); t.data=b"x"; t.size=1; t.total_size=9; tasks.append(t)
    it=iter(tasks)
    def get_task():
        try: return next(it)
        except StopIteration: raise Stop()
    client.get_task=get_task
    client.send_callback=lambda *a: sent.append(a)
    cl.time=types.SimpleNamespace(sleep=lambda s: sleeps.append(s), time=_time.time)
    client.silent=True   # so empty tasks are dispatched too
    try: client._beacon_loop()
    except Stop: pass
    return sleeps, sent
calls=collections.Counter()
def mk(name):
    def h(task): calls[name]+=1; return None
    return h
class Sub(HttpBeaconClient):
    def on_sleep(self, task): calls["on_sleep"]+=1
    def on_catch_all(self, task): calls["on_catch_all"]+=1
    def on_empty_task(self, task): calls["on_empty"]+=1
c=Sub(); c.run(cfg, dry_run=True, beacon_id=10, sleeptime=100, jitter=10)
c.handle(BeaconCommand.COMMAND_SLEEP)(mk("dec_sleep"))
c.register_task(39, mk("reg_pwd"))
c.catch_all()(mk("dec_catch"))
cmds=[4,4,39,32,None,4,32,39,None]
sleeps,sent=drive(c, cmds)
print(dict(calls)); print("expected: dec_sleep 3, on_sleep 3, reg_pwd 2, dec_catch 2, on_catch_all 2, on_empty 2"); print(len(sleeps), min(sleeps), max(sleeps))
