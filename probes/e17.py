from load import *
import io, collections, random, struct, tempfile, os
from dissect.cobaltstrike.beacon import BeaconConfig
from dissect.cobaltstrike import pe, guardrails, xordecode, artifact
def classify(f, *a, **k):
    try: f(*a, **k); return "ok"
    except ValueError as e: return "ValueError"
    except BaseException as e: return type(e).__name__+":"+str(e)[:50]
d = bytearray(load("dns"))
mz = pe.find_mz_offset(io.BytesIO(d)); lfanew = struct.unpack_from("<I", d, mz+0x3c)[0]
print("mz", mz, "lfanew", lfanew)
pe_off = mz+lfanew
# NumberOfSections huge
t = bytearray(d); struct.pack_into("<H", t, pe_off+6, 0xFFFF)
print("nsections=65535:", classify(BeaconConfig.from_bytes, bytes(t), xor_keys=[b"\xaf"]))
# export RVA points to far
opt = pe_off+24
t = bytearray(d); 
# find section table & set first section VirtualSize huge, export VA pointing into it far away
nsec = struct.unpack_from("<H", d, pe_off+6)[0]; sopt = struct.unpack_from("<H", d, pe_off+20)[0]
sec0 = opt + sopt
print("nsec", nsec, "export dd", struct.unpack_from("<II", d, opt+96))
struct.pack_into("<I", t, sec0+8, 0xFFFFFFF0)  # VirtualSize
va0 = struct.unpack_from("<I", d, sec0+12)[0]
struct.pack_into("<I", t, opt+96, va0+0x7000000)
print("export far:", classify(BeaconConfig.from_bytes, bytes(t), xor_keys=[b"\xaf"]))
# random byte corruptions in first 1024 bytes
random.seed(5); res=collections.Counter()
for i in range(300):
    t = bytearray(d)
    for _ in range(random.randrange(1,4)):
        t[random.randrange(0, 0x400)] = random.randrange(256)
    res[classify(BeaconConfig.from_bytes, bytes(t), xor_keys=[b"\xaf"])]+=1
print(res)
# path-based
with tempfile.NamedTemporaryFile(delete=False) as f: f.write(b"\x01\x00\x01\x00\x02\x00"+b"A"*100); p=f.name
print("from_path zero-key false needle:", classify(BeaconConfig.from_path, p)); os.unlink(p)
print("from_bytes same:", classify(BeaconConfig.from_bytes, b"\x01\x00\x01\x00\x02\x00"+b"A"*100))
# guardrails truncation
g = load("guard"); c = BeaconConfig.from_bytes(g); gm=c.guardrails
res=collections.Counter()
for cut in [gm.guard_config_offset+k for k in (0,1,2,5,6,7,8,12,13,18,19,20,30,100,2047,2048)]+[gm.beacon_config_offset+k for k in (0, 10, 6143, 6144)]:
    t = g[gm.beacon_config_offset-50:cut]
    r = classify(BeaconConfig.from_bytes, t); res[r]+=1
    if r not in ("ok","ValueError"): print(" cut", cut-gm.guard_config_offset, r)
print(res)
# crafted marker at offset 0
from dissect.cobaltstrike.utils import xor
start = xor(guardrails.GUARD_CONFIG_STARTS[0], b"\x8a")
a = os.urandom(6); b_ = xor(a[::-1], start)
blob = a + b_ + os.urandom(64)
print("marker@0 from_bytes:", classify(BeaconConfig.from_bytes, blob))
with tempfile.NamedTemporaryFile(delete=False) as f: f.write(blob); p=f.name
print("marker@0 from_path:", classify(BeaconConfig.from_path, p)); os.unlink(p)
blob = os.urandom(7000) + a + b_ + os.urandom(64)
print("marker@7000 from_bytes:", classify(BeaconConfig.from_bytes, blob))
