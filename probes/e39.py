import random, logging, hashlib, os, collections
from load import load
from Crypto.PublicKey import RSA
from dissect.cobaltstrike.beacon import BeaconConfig
from dissect.cobaltstrike.c2 import C2Http, C2Data, ClientC2Data, HttpResponse
from dissect.cobaltstrike.c2profile import C2Profile
from dissect.cobaltstrike.client import HttpBeaconClient
logging.disable(logging.CRITICAL)
priv=RSA.generate(1024); der=priv.publickey().export_key("DER")
def rekey(cfg):
    blk=bytearray(cfg.config_block); old=cfg.raw_settings["SETTING_PUBKEY"]; i=bytes(blk).find(old); blk[i:i+len(old)]=der.ljust(len(old),b"\0"); return bytes(blk)
def canon(x):
    if isinstance(x,(bytes,str,int,bool,type(None),float)): return (type(x).__name__, x)
    if isinstance(x,(list,tuple)): return (type(x).__name__, tuple(canon(i) for i in x))
    if isinstance(x,dict) or hasattr(x,"items"): return ("map", tuple((canon(k),canon(v)) for k,v in x.items()))
    return ("obj", repr(x))
def snap(c):
    return canon([c.config_block, [(s.index.value, s.type.value, s.length, s.value) for s in c.settings_tuple], dict(c.settings), dict(c.settings_by_index), dict(c.raw_settings), dict(c.raw_settings_by_index), c.domains, c.uris, c.domain_uri_pairs, c.killdate, c.protocol, c.port, c.watermark, c.is_trial, str(c.version), c.public_key, c.sleeptime, c.jitter, c.setting_enums, c.xorkey, c.xorencoded])
culprits=collections.Counter()
for name in ("c2test","x86","x64","custom","puny"):
    blk=rekey(BeaconConfig.from_bytes(load(name), xor_keys=[b"\x69",b"\x2e",b"\xcc"]))
    for trial in range(6):
        rng=random.Random(trial); c=BeaconConfig(blk); before=snap(c); http=None
        for step in range(10):
            op=rng.choice(["views","c2http_aes","c2http_rand","c2http_rsa","client","profile","tx_get","tx_post","tx_resp","mutate"])
            try:
                if op=="views": c.settings_map("enum",pretty=True); c.settings; c.raw_settings
                elif op=="c2http_aes": http=C2Http(c, aes_key=b"k"*16, hmac_key=b"h"*16)
                elif op=="c2http_rand": http=C2Http(c, aes_rand=b"r"*16)
                elif op=="c2http_rsa": http=C2Http(c, rsa_private_key=priv)
                elif op=="client": HttpBeaconClient().run(c, dry_run=True, beacon_id=rng.randrange(1000))
                elif op=="profile": C2Profile.from_beacon_config(c).as_text()
                elif op=="tx_get" and http: r=http.transform_get.transform(C2Data(metadata=b"m"*128)); http.transform_get.recover(r)
                elif op=="tx_post" and http: r=http.transform_submit.transform(ClientC2Data(id=b"42", output=b"o"*64)); http.transform_submit.recover(r)
                elif op=="tx_resp" and http: r=http.transform_response.transform(C2Data(output=b"o"*64)); http.transform_response.recover(HttpResponse(200,{},b"OK",r.body))
                elif op=="mutate":
                    try: c.settings["X"]=1; culprits[(name,"mutation accepted")]+=1
                    except TypeError: pass
            except Exception as e:
                culprits[(name, op, "EXC "+type(e).__name__+" "+str(e)[:50])]+=1
            after=snap(c)
            if after!=before:
                culprits[(name,op,"MUTATED")]+=1; before=after
for k,v in sorted(culprits.items(), key=str): print(v,k)
