import sys, types, time, io, os
from dissect.cobaltstrike import beacon, utils, xordecode, pe, guardrails, artifact, c2
from load import load
mon = sys.monitoring; TOOL=3; mon.use_tool_id(TOOL, "vf")
class Budget(BaseException): pass
act = {}   # id(frame) -> [frame, count]
cfg = {"A": 10**9, "total":0, "maxact":0, "maxwhere":None}
def on_jump(code, src, dst):
    if dst < src:
        f = sys._getframe(1)
        e = act.get(id(f))
        if e is None or e[0] is not f:
            e = act[id(f)] = [f, 0]
        e[1]+=1; cfg["total"]+=1
        if e[1] > cfg["maxact"]: cfg["maxact"]=e[1]; cfg["maxwhere"]=code.co_name
        if e[1] > cfg["A"]:
            raise Budget(f"{code.co_name}:{f.f_lineno} iterated {e[1]} times in one activation")
def on_exit(code, off, val):
    act.pop(id(sys._getframe(1)), None)
mon.register_callback(TOOL, mon.events.JUMP, on_jump)
mon.register_callback(TOOL, mon.events.PY_RETURN, on_exit)
def code_objects(mod):
    seen=set(); out=[]
    def walk(co):
        if co in seen: return
        seen.add(co); out.append(co)
        for c in co.co_consts:
            if isinstance(c, types.CodeType): walk(c)
    for name, obj in vars(mod).items():
        if isinstance(obj, types.FunctionType) and obj.__module__==mod.__name__: walk(obj.__code__)
        elif isinstance(obj, type) and obj.__module__==mod.__name__:
            for v in vars(obj).values():
                f = getattr(v, "__func__", v)
                if isinstance(f, types.FunctionType): walk(f.__code__)
                if isinstance(v, property) and v.fget: walk(v.fget.__code__)
    return out
for m in (beacon, utils, xordecode, pe, guardrails, artifact, c2):
    for co in code_objects(m): mon.set_local_events(TOOL, co, mon.events.JUMP|mon.events.PY_RETURN)
def run(name, d, **kw):
    act.clear(); cfg.update(total=0, maxact=0, maxwhere=None, A=8*len(d)+100000); t=time.time()
    try: beacon.BeaconConfig.from_bytes(d, **kw); r="ok"
    except ValueError: r="ValueError"
    except Budget as e: r="BUDGET "+str(e)
    print(name, len(d), r, "total", cfg["total"], "max/activation", cfg["maxact"], cfg["maxwhere"], "ratio", round(cfg["maxact"]/max(1,len(d)),3), round(time.time()-t,2), "live", len(act))
def S(i,t,v): return i.to_bytes(2,'big')+t.to_bytes(2,'big')+len(v).to_bytes(2,'big')+v
run("x86", load("x86")); run("guard", load("guard")); run("x86 wrongkey", load("x86"), xor_keys=[b"\x01"])
run("random allkeys", os.urandom(60000), all_xor_keys=True)
run("UA hang", S(1,1,b"\x00\x08")+S(9,3,b"A"*128))
run("ff*300", b"\xff"*300)
