import sys, types, time, io
sys.path.insert(0, __import__("os").path.join(__import__("os").path.dirname(__file__), "deps"))
import icontract
from dissect.cobaltstrike import beacon, utils, xordecode, pe, guardrails, artifact, c2
mon = sys.monitoring
TOOL = 3
mon.use_tool_id(TOOL, "vf-steps")
class StepBudgetExceeded(BaseException): pass
class Lasso(BaseException): pass
state = {"n":0, "budget": 10**9, "last": None, "rep": 0}
def code_objects(mod):
    seen=set(); out=[]
    def walk(co):
        if co in seen: return
        seen.add(co); out.append(co)
        for c in co.co_consts:
            if isinstance(c, types.CodeType): walk(c)
    for name, obj in vars(mod).items():
        if isinstance(obj, types.FunctionType) and obj.__module__==mod.__name__: walk(obj.__code__)
        elif isinstance(obj, type) and obj.__module__==mod.__name__:
            for v in vars(obj).values():
                f = getattr(v, "__func__", v)
                if isinstance(f, types.FunctionType): walk(f.__code__)
                if isinstance(v, property):
                    for g in (v.fget, v.fset):
                        if g: walk(g.__code__)
    return out
import inspect
def on_jump(code, src, dst):
    if dst < src:  # back-edge
        state["n"] += 1
        if state["n"] > state["budget"]:
            raise StepBudgetExceeded(f"{code.co_name} {state['n']}")
mon.register_callback(TOOL, mon.events.JUMP, on_jump)
cos=[]
for m in (beacon, utils, xordecode, pe, guardrails, artifact, c2): cos += code_objects(m)
for co in cos: mon.set_local_events(TOOL, co, mon.events.JUMP)
print("instrumented code objects", len(cos))
def S(i,t,v): return i.to_bytes(2,'big')+t.to_bytes(2,'big')+len(v).to_bytes(2,'big')+v
blk = S(1,1,b"\x00\x08")+S(9,3,b"A"*128)
state["budget"]=200000; state["n"]=0
t=time.time()
try: beacon.BeaconConfig(blk)
except StepBudgetExceeded as e: print("budget exceeded:", e, time.time()-t)
# measure back-edge counts on real sample
from load import load
for n in ("x86","dns","guard"):
    d=load(n); state["budget"]=10**10; state["n"]=0; t=time.time()
    try: beacon.BeaconConfig.from_bytes(d, xor_keys=[b"\x69", b"\x2e", b"\xaf"])
    except ValueError: pass
    print(n, len(d), "backedges", state["n"], "ratio", state["n"]/len(d), time.time()-t)
import os
d=os.urandom(60000); state["n"]=0; t=time.time()
try: beacon.BeaconConfig.from_bytes(d, all_xor_keys=True)
except ValueError: pass
print("random allkeys", state["n"], state["n"]/len(d), time.time()-t)
d=load("x86"); state["n"]=0; t=time.time()
try: beacon.BeaconConfig.from_bytes(d, xor_keys=[b"\x01"])
except ValueError: pass
print("x86 wrong key (guardrail scan over xorenc)", state["n"], state["n"]/len(d), time.time()-t)
