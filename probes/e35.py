import random, struct, io, os, collections
exec(open("e23.py").read().split("cfg = S(1,1")[0])
from dissect.cobaltstrike.xordecode import XorEncodedFile
random.seed(2)
res=collections.Counter()
def stub_bytes(n):
    b=bytearray(os.urandom(n))
    # avoid accidental ff ff ff
    for i in range(len(b)): 
        if b[i]==0xff: b[i]=0xfe
    return bytes(b)
for it in range(400):
    arch=random.choice(["x86","x64"])
    img=build_pe(arch, lfanew=random.choice([0x40,0x80,0xf8,0x3f0]), data=os.urandom(random.randrange(0,700)), prepend=stub_bytes(random.choice([0,0,3,9,500,900])), append=random.choice([b"",b"TAIL"]))
    if random.random()<.3: img=img[:len(img)-random.randrange(1,4)]  # len not multiple of 4
    nonce=os.urandom(4)
    marker=random.random()<.6; size_ok=random.random()<.6
    stub=stub_bytes(random.choice([0,1,57,300,1000,1019,1020]))
    enc=xorencode(img, nonce, stub=stub, marker=marker)
    if not size_ok: enc+=os.urandom(random.randrange(1,9))
    true_off=len(stub)+(3 if marker else 0)
    kind=(marker,size_ok, true_off<1024)
    try:
        xf=XorEncodedFile.from_file(io.BytesIO(enc))
        ok = xf.nonce_offset==true_off
        if ok:
            xf.seek(0); dec=xf.read()
            ok = dec[:len(img)]==img
        res[(kind, "found-ok" if ok else "found-WRONG %d vs %d"%(xf.nonce_offset,true_off))]+=1
    except ValueError: res[(kind,"ValueError")]+=1
for k,v in sorted(res.items()): print(k,v)
# non-xorencoded
neg=collections.Counter()
for _ in range(200):
    d=random.choice([os.urandom(random.randrange(0,3000)), build_pe("x86", data=b"x"*100), b"", b"MZ"])
    try: XorEncodedFile.from_file(io.BytesIO(d)); neg["accepted"]+=1
    except ValueError: neg["ValueError"]+=1
    except Exception as e: neg[type(e).__name__]+=1
print(dict(neg))
