from load import *
from dissect.cobaltstrike.beacon import BeaconConfig
from dissect.cobaltstrike.c2profile import C2Profile
import struct
def S(i,t,v): return i.to_bytes(2,'big')+t.to_bytes(2,'big')+len(v).to_bytes(2,'big')+v
def prog(steps):
    out=b""
    for s in steps:
        if isinstance(s,int): out+=struct.pack(">I",s)
        else:
            op,arg=s
            if op==7: out+=struct.pack(">II",7,arg)
            else: out+=struct.pack(">II",op,len(arg))+arg
    return out+b"\x00"*8
def cfg(get_prep, ua=b"Mozilla/5.0", recover_prep=3):
    get = prog([(10,b"Accept: */*"),(9,b"a=b\\c"),(7,0),3,(2,get_prep),(6,b"Cookie")])
    post = prog([(10,b"Content-Type: x"),(7,0),(5,b"id"),(7,1),15,(1,get_prep),4])
    rec = struct.pack(">IIIII",4,1,recover_prep,2,7)+struct.pack(">I",3)+b"\x00"*4
    return (S(1,1,b"\x00\x00")+S(2,1,b"\x00\x50")+S(3,2,struct.pack(">I",60000))+S(5,1,b"\x00\x0a")+S(8,3,b"a.com,/x,b.com,/y\x00\x00")+S(9,3,ua+b"\x00"*5)
      +S(10,3,b"/submit\x00")+S(11,3,rec)+S(12,3,get)+S(13,3,post)+S(26,3,b"GET\x00")+S(27,3,b"POST\x00"))
for prep, ua in [(b"sess=", b"Mozilla"), (b"a\\b", b"Mozilla"), (b"tail\\", b"Mozilla"), (b"q\"uote", b"UA \"q\" \\ end"), (b"\xff\x00\n;}{#", b"Moz"), (b"x", b"UA\\")]:
    c = BeaconConfig(cfg(prep, ua))
    print("=== prep", prep, "ua", ua)
    print(c.settings["SETTING_C2_REQUEST"], c.settings["SETTING_C2_POSTREQ"], c.settings["SETTING_C2_RECOVER"])
    try:
        p = C2Profile.from_beacon_config(c); txt = p.as_text()
        p2 = C2Profile.from_text(txt); d = p2.as_dict()
        for k in ("useragent","http-get.uri","http-get.client.metadata","http-get.client.parameter","http-get.client.header","http-post.client.output","http-post.client.id","http-get.server.output", "http-post.uri","http-get.verb"): print("  ",k, d.get(k))
        print("  same dict as direct:", p.as_dict()==d)
    except Exception as e:
        print("  EXC", type(e).__name__, str(e)[:200])
