import struct, os, io, random
from dissect.cobaltstrike.beacon import BeaconConfig
from dissect.cobaltstrike import pe, xordecode
from dissect.cobaltstrike.utils import xor
def S(i,t,v): return struct.pack(">HHH", i,t,len(v))+v
def build_pe(arch="x86", lfanew=0x80, magic_mz=b"MZRE", magic_pe=b"PE", tstamp=0x5F94C216, export_stamp=0x5FA0B201, nsec=3, data=b"", prepend=b"", append=b"", export=True):
    stub = bytes.fromhex("e8000000005b") if arch=="x86" else bytes.fromhex("554889e54881")
    dos = bytearray(lfanew)
    hdr = magic_mz + stub
    dos[:len(hdr)] = hdr
    struct.pack_into("<I", dos, 0x3c, lfanew)
    machine = 0x14c if arch=="x86" else 0x8664
    optsize = 224 if arch=="x86" else 240
    filehdr = struct.pack("<HHIIIHH", machine, nsec, tstamp, 0, 0, optsize, 0x2102)
    headers_size = lfanew + 4 + 20 + optsize + 40*nsec
    headers_size_al = (headers_size + 0x1ff) & ~0x1ff
    # sections: .text, .rdata(export), .data
    secs=[]; raw = headers_size_al; va = 0x1000
    bodies=[]
    exp_dir = struct.pack("<IIHHIIIIIII", 0, export_stamp, 0,0, 0,1,0,0,0,0,0)
    contents = [os.urandom(0x200), exp_dir.ljust(0x200, b"\0"), data.ljust((len(data)+0x1ff)&~0x1ff, b"\0") or b"\0"*0x200][:nsec]
    names=[b".text",b".rdata",b".data"]
    export_va = 0
    for i,cn in enumerate(contents):
        secs.append(struct.pack("<8sIIIIIIHHI", names[i], len(cn), va, len(cn), raw, 0,0,0,0, 0x60000020))
        if i==1 and export: export_va = va
        raw += len(cn); va += (len(cn)+0xfff)&~0xfff
    opt = bytearray(optsize)
    struct.pack_into("<H", opt, 0, 0x10b if arch=="x86" else 0x20b)
    struct.pack_into("<I", opt, 60, headers_size_al)  # SizeOfHeaders at offset 60 in both
    ddoff = 96 if arch=="x86" else 112
    struct.pack_into("<I", opt, ddoff-4, 16)
    struct.pack_into("<II", opt, ddoff, export_va, 40 if export_va else 0)
    img = bytes(dos) + magic_pe.ljust(4,b"\0") + filehdr + bytes(opt) + b"".join(secs)
    img = img.ljust(headers_size_al, b"\0") + b"".join(contents)
    return prepend + img + append
def xorencode(plain, nonce, stub=b"", marker=True):
    out=bytearray(); prev=nonce
    for i in range(0,len(plain),4):
        e=bytes(a^b for a,b in zip(plain[i:i+4], prev)); out+=e; prev=e
    encsize=bytes(a^b for a,b in zip(struct.pack("<I",len(plain)),nonce))
    return stub+(b"\xff\xff\xff" if marker else b"")+nonce+encsize+bytes(out)
cfg = S(1,1,b"\x00\x08")+S(2,1,b"\x01\xbb")+S(37,2,struct.pack(">I",0x12345678))
blk = xor(cfg.ljust(4096,b"\0"), b"\x2e")
for arch in ("x86","x64"):
  for prepend in (b"", b"\x90"*9):
    for app in (b"", b"TAIL"):
        img = build_pe(arch, data=os.urandom(100)+blk+os.urandom(50), prepend=prepend, append=app)
        f=io.BytesIO(img)
        c = BeaconConfig.from_bytes(img)
        print(arch, len(prepend), app, "|", c.architecture, hex(c.pe_compile_stamp), hex(c.pe_export_stamp or 0), str(c.version), c.xorencoded, pe.find_mz_offset(f), pe.find_magic_mz(f), pe.find_magic_pe(f), pe.find_stage_prepend_append(f))
        enc = xorencode(img, os.urandom(4), stub=os.urandom(57))
        c = BeaconConfig.from_bytes(enc)
        xf = xordecode.XorEncodedFile.from_file(io.BytesIO(enc))
        print("    xorenc:", c.architecture, c.xorencoded, xf.nonce_offset, dict(c.settings), pe.find_stage_prepend_append(xf))
