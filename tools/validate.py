#!/usr/bin/env python3-vt
import json, glob, sys, jsonschema
ok = True
jsonschema.validate(json.load(open('MANIFEST.json')), json.load(open('/root/.vp/MANIFEST.schema.json')))
es = json.load(open('/root/.vp/EVIDENCE.schema.json'))
for f in sorted(glob.glob('evidence/*.json')):
    try: jsonschema.validate(json.load(open(f)), es)
    except Exception as e: ok = False; print("INVALID", f, str(e)[:300])
print("valid" if ok else "INVALID")
sys.exit(0 if ok else 1)
