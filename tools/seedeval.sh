#!/bin/sh
# tools/seedeval.sh <Cxx> <dir with patch.diff + demo.py> [tier] [extra check ids...]
# Validates a seeded change in a scratch worktree (never in /repo): test-suite still passes, demo fails with the
# change and passes without, and runs the property's check against the changed tree (VERIF_REPO).
PROP="$1"; DIR="$(cd "$2" && pwd)"; TIER="${3:-quick}"
NAME="$(echo "$DIR" | tr '/' '_')"
WT="/tmp/seedeval/$NAME"
OUT="/tmp/seedeval/out_$NAME"
rm -rf "$WT" "$OUT"; mkdir -p /tmp/seedeval "$OUT"
git -C /repo worktree add -q --detach "$WT" HEAD || exit 9
cleanup() { git -C /repo worktree remove --force "$WT" >/dev/null 2>&1; rm -rf "$OUT"; }
if ! git -C "$WT" apply "$DIR/patch.diff"; then echo "RESULT apply=FAILED"; cleanup; exit 9; fi
if [ -z "$SKIP_TESTS" ]; then
  TESTS="$(cd "$WT" && PYTHONPATH="$WT" /venv/bin/python -m pytest -q -p no:cacheprovider --timeout=900 -x 2>&1 | tail -1)"
else TESTS="skipped"; fi
(cd "$WT" && PYTHONPATH="$WT" timeout 600 /venv/bin/python "$DIR/demo.py" >/dev/null 2>&1); DEMO_MUT=$?
(cd /repo && PYTHONPATH=/repo timeout 600 /venv/bin/python "$DIR/demo.py" >/dev/null 2>&1); DEMO_CLEAN=$?
cd /verif
VERIF_REPO="$WT" VERIF_OUT="$OUT" ./check "$PROP" "$TIER" > "$OUT/check.log" 2>&1; RC=$?
echo "RESULT prop=$PROP tests='$TESTS' demo_mutant_rc=$DEMO_MUT demo_clean_rc=$DEMO_CLEAN check_rc=$RC"
grep -E "^VIOLATION|^  monitor|^INCONCLUSIVE|verdict=" "$OUT/check.log" | cut -c1-330 | head -8
cleanup
