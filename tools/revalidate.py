#!/usr/bin/env python3
"""tools/revalidate.py [-j N] [seeded dir names...]
Re-validates stored seeded changes against the current /repo HEAD (tools/seedeval.sh: scratch worktree + patch,
test-suite, demo with/without, the recorded check on the changed tree) and refreshes the result fields of meta.json.
Prints one line per change; exit 1 if any change no longer applies, is no longer harmless to the test-suite, no longer
manifests in its demo, or is no longer caught."""
import concurrent.futures
import json
import os
import re
import subprocess
import sys

root = os.path.dirname(os.path.dirname(os.path.abspath(__file__)))
args = sys.argv[1:]
jobs = 3
if args[:1] == ["-j"]:
    jobs = int(args[1])
    args = args[2:]
names = args or sorted(os.listdir(os.path.join(root, "seeded")))
head = subprocess.check_output(["git", "-C", "/repo", "log", "--format=%h", "-1"], text=True).strip()


def one(name):
    dst = os.path.join(root, "seeded", name)
    meta = json.load(open(os.path.join(dst, "meta.json")))
    check = meta["property"]
    m = re.match(r"\./check (C\d\d) ", meta.get("caught_by") or "")
    if m:
        check = m.group(1)
    out = subprocess.run([os.path.join(root, "tools", "seedeval.sh"), check, dst], capture_output=True, text=True).stdout
    m = re.search(r"RESULT prop=(\S+) tests='([^']*)' demo_mutant_rc=(\d+) demo_clean_rc=(\d+) check_rc=(\d+)", out)
    if not m:
        return name, False, out.strip()[-200:]
    lines = [l[:400] for l in out.splitlines() if l.startswith(("VIOLATION", "  monitor", "INCONCLUSIVE")) or "verdict=" in l]
    tests = m.group(2)
    if tests == "skipped" and meta.get("repo_head") == head and "passed" in (meta.get("test_suite_with_change") or ""):
        # SKIP_TESTS=1: the test-suite result recorded for this very HEAD stands (only /verif changed since)
        tests = meta["test_suite_with_change"]
    meta.update({
        "test_suite_with_change": tests, "demo_exit_with_change": int(m.group(3)), "demo_exit_without_change": int(m.group(4)),
        "check_exit_with_change": int(m.group(5)), "caught_by": f"./check {check} quick" if m.group(5) == "1" else None,
        "check_output": lines[:6], "repo_head": head,
    })
    json.dump(meta, open(os.path.join(dst, "meta.json"), "w"), indent=1)
    good = "passed" in tests and "failed" not in tests and m.group(3) != "0" and m.group(4) == "0" and m.group(5) == "1"
    return name, good, f"tests='{tests}' demo {m.group(3)}/{m.group(4)} check_rc={m.group(5)}"


bad = 0
with concurrent.futures.ThreadPoolExecutor(jobs) as ex:
    for name, good, msg in ex.map(one, names):
        print(("ok   " if good else "BAD  ") + name, msg, flush=True)
        bad += not good
sys.exit(1 if bad else 0)
