#!/venv/bin/python
"""Regenerates MANIFEST.json from the property modules under vf/props (run from /verif)."""
import importlib, json, os, sys
ROOT = os.path.dirname(os.path.dirname(os.path.abspath(__file__)))
sys.path.insert(0, ROOT); sys.path.insert(1, os.path.join(ROOT, ".deps"))
props = [json.loads(l)["id"] for l in open(os.path.join(ROOT, "properties.jsonl"))]
checks, na = [], []
for pid in props:
    path = os.path.join(ROOT, "vf", "props", pid.lower() + ".py")
    if not os.path.exists(path):
        na.append({"property_id": pid, "reason": "check not built yet in this round (runtime monitoring applies; see DESIGN.md section 2)"})
        continue
    m = importlib.import_module(f"vf.props.{pid.lower()}")
    checks.append({
        "property_id": pid,
        "quick_cmd": f"./check {pid} quick",
        "thorough_cmd": f"./check {pid} thorough",
        "evidence_file": f"evidence/{pid}.json",
        "replay_cmd_template": f"./check {pid} --replay {{path}}",
        "engine": "vf",
        "level_claimed": {"category": m.LEVEL, "text": m.LEVEL_TEXT, "design_ref": f"DESIGN.md section 2, {pid}"},
        "level_note": m.LEVEL_NOTE,
        "technique": m.TECHNIQUE,
    })
manifest = {
    "version": 1,
    "setup_cmd": "sh ./setup.sh",
    "hooks": {
        "guard": "DISSECT_COBALTSTRIKE_VERIF",
        "enable": "no source hooks are needed: monitors are attached from outside (icontract wrappers, module-attribute rebinding, sys.monitoring); ./check exports DISSECT_COBALTSTRIKE_VERIF=1 and imports dissect.cobaltstrike from /repo's working tree (editable install, nothing to build)",
        "baseline_off_cmd": "cd /repo && /venv/bin/python -m pytest -ra -q -p no:cacheprovider --timeout=900 --continue-on-collection-errors",
        "source_commits": [],
        "add_only": True,
    },
    "engines": [{
        "name": "vf", "path": "vf/", "serves_properties": [c["property_id"] for c in checks],
        "kind_free_text": "runtime monitoring harness: sharded workload generators drive the real library; reference-model monitors, icontract contracts, history checkers, fault injection and a sys.monitoring bounded-progress monitor observe the executions",
    }],
    "checks": checks,
    "not_applicable": na,
    "notes": "exit 0 held / 1 VIOLATION / 2 INCONCLUSIVE (watchdog, deciding monitor never evaluated). VERIF_SEED and VERIF_TIER honoured. known_findings.json lists open findings (KNOWN-FINDING lines) and fixed: records.",
}
json.dump(manifest, open(os.path.join(ROOT, "MANIFEST.json"), "w"), indent=1)
print("checks:", len(checks), "not_applicable:", len(na))
