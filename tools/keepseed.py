#!/usr/bin/env python3
"""tools/keepseed.py <Cxx> <A|B> <source dir> "<what it needs to manifest>"
Re-validates a seeded change in a scratch worktree (test-suite, demo with/without, the property's quick check) and
stores it as seeded/<Cxx>-<A|B>/ with meta.json."""
import json, os, re, shutil, subprocess, sys
prop, variant, src, needs = sys.argv[1:5]
root = os.path.dirname(os.path.dirname(os.path.abspath(__file__)))
dst = os.path.join(root, "seeded", f"{prop}-{variant}")
os.makedirs(dst, exist_ok=True)
for f in ("patch.diff", "demo.py", "notes.md"):
    if os.path.exists(os.path.join(src, f)):
        shutil.copy(os.path.join(src, f), os.path.join(dst, f))
out = subprocess.run([os.path.join(root, "tools", "seedeval.sh"), os.environ.get("SEED_CHECK", prop), dst], capture_output=True, text=True).stdout
m = re.search(r"RESULT prop=(\S+) tests='([^']*)' demo_mutant_rc=(\d+) demo_clean_rc=(\d+) check_rc=(\d+)", out)
lines = [l[:400] for l in out.splitlines() if l.startswith(("VIOLATION", "  monitor", "INCONCLUSIVE")) or "verdict=" in l]
meta = {
    "property": prop,
    "breaks": open(os.path.join(dst, "notes.md")).read()[:1500] if os.path.exists(os.path.join(dst, "notes.md")) else "",
    "needs_to_manifest": needs,
    "produced_by": "independent sub-agent given only the property text and a scratch worktree",
    "validated_with": f"tools/seedeval.sh {prop} seeded/{prop}-{variant}  (scratch worktree of /repo HEAD + patch; test-suite; demo.py on patched and clean tree; VERIF_REPO=<scratch> ./check {prop} quick)",
    "test_suite_with_change": m.group(2) if m else None,
    "demo_exit_with_change": int(m.group(3)) if m else None,
    "demo_exit_without_change": int(m.group(4)) if m else None,
    "check_exit_with_change": int(m.group(5)) if m else None,
    "caught_by": f"./check {os.environ.get('SEED_CHECK', prop)} quick" if m and m.group(5) == "1" else None,
    "check_output": lines[:6],
    "repo_head": subprocess.check_output(["git", "-C", "/repo", "log", "--format=%h", "-1"], text=True).strip(),
}
json.dump(meta, open(os.path.join(dst, "meta.json"), "w"), indent=1)
print(prop, variant, meta["test_suite_with_change"], meta["demo_exit_with_change"], meta["demo_exit_without_change"], "check_rc", meta["check_exit_with_change"])
