"""Reference Malleable C2 data-transform codec (encoder and decoder), written from the profile language
semantics: own base64/base64url (unpadded), own NetBIOS, own 4-byte mask, own placement rules."""

import random

B64 = "ABCDEFGHIJKLMNOPQRSTUVWXYZabcdefghijklmnopqrstuvwxyz0123456789+/"
B64URL = B64[:62] + "-_"


def b64(d, url=False, pad=True):
    al = B64URL if url else B64
    out = []
    for i in range(0, len(d), 3):
        c = d[i : i + 3]
        n = int.from_bytes(c.ljust(3, b"\0"), "big")
        q = [al[(n >> 18) & 63], al[(n >> 12) & 63], al[(n >> 6) & 63], al[n & 63]]
        if len(c) == 1:
            q = q[:2] + (["=", "="] if pad else [])
        elif len(c) == 2:
            q = q[:3] + (["="] if pad else [])
        out += q
    return "".join(out).encode()


def unb64(s, url=False):
    al = B64URL if url else B64
    s = s.rstrip(b"=")
    bits = 0
    nb = 0
    out = bytearray()
    for ch in s.decode("latin-1"):
        bits = (bits << 6) | al.index(ch)
        nb += 6
        if nb >= 8:
            nb -= 8
            out.append((bits >> nb) & 0xFF)
    return bytes(out)


def nb_enc(d, base):
    return bytes(x for b in d for x in (base + (b >> 4), base + (b & 15)))


def nb_dec(s, base):
    return bytes(((s[i] - base) << 4) | (s[i + 1] - base) for i in range(0, len(s), 2))


ENCODERS = ["BASE64", "BASE64URL", "NETBIOS", "NETBIOSU", "MASK", "APPEND", "PREPEND"]
TERMINATIONS = ["PRINT", "HEADER", "PARAMETER", "URI_APPEND"]
STATIC = ["_HEADER", "_HOSTHEADER", "_PARAMETER"]


def ref_encode(prog, c2, req, mask_seed, b64url_pad=False):
    """prog: [(OP, arg)] with BUILD steps; c2: dict name->bytes; req: dict(method, uri, params, headers, body).
    Mask bytes are the big-endian 32-bit outputs of random.Random(mask_seed), one per MASK step."""
    mr = random.Random(mask_seed)
    uri, params, headers, body = req["uri"], dict(req["params"]), dict(req["headers"]), req["body"]
    data = b""
    for op, arg in prog:
        if op == "BUILD":
            data = c2.get(arg) or b""
        elif op == "APPEND":
            data = data + arg
        elif op == "PREPEND":
            data = arg + data
        elif op == "BASE64":
            data = b64(data)
        elif op == "BASE64URL":
            data = b64(data, True, pad=b64url_pad)
        elif op == "NETBIOS":
            data = nb_enc(data, 0x61)
        elif op == "NETBIOSU":
            data = nb_enc(data, 0x41)
        elif op == "MASK":
            k = mr.getrandbits(32).to_bytes(4, "big")
            data = k + bytes(b ^ k[i % 4] for i, b in enumerate(data))
        elif op == "PRINT":
            body = data
        elif op == "HEADER":
            headers[arg] = data
        elif op == "PARAMETER":
            params[arg] = data
        elif op == "URI_APPEND":
            uri = uri + data
        elif op in ("_HEADER", "_HOSTHEADER"):
            k, _, v = arg.partition(b": ")
            headers[k] = v
        elif op == "_PARAMETER":
            k, _, v = arg.partition(b"=")
            params[k] = v
        else:
            raise ValueError(op)
    return {"method": req["method"], "uri": uri, "params": params, "headers": headers, "body": body}


def split_blocks(prog):
    blocks = []
    cur = None
    for op, arg in prog:
        if op == "BUILD":
            cur = [arg, []]
            blocks.append(cur)
        elif op in STATIC:
            continue
        else:
            cur[1].append((op, arg))
    return blocks


def ref_decode(prog, msg, base_uri=b""):
    """msg: dict(uri, params, headers, body) -> dict name -> bytes"""
    out = {}
    for name, steps in split_blocks(prog):
        term = steps[-1]
        if term[0] == "PRINT":
            data = msg["body"]
        elif term[0] == "HEADER":
            data = msg["headers"][term[1]]
        elif term[0] == "PARAMETER":
            data = msg["params"][term[1]]
        elif term[0] == "URI_APPEND":
            data = msg["uri"][len(base_uri) :]
        else:
            raise ValueError(term)
        for op, arg in reversed(steps[:-1]):
            if op == "APPEND":
                data = data[: len(data) - len(arg)]
            elif op == "PREPEND":
                data = data[len(arg) :]
            elif op == "BASE64":
                data = unb64(data)
            elif op == "BASE64URL":
                data = unb64(data, True)
            elif op == "NETBIOS":
                data = nb_dec(data, 0x61)
            elif op == "NETBIOSU":
                data = nb_dec(data, 0x41)
            elif op == "MASK":
                k = data[:4]
                data = bytes(b ^ k[i % 4] for i, b in enumerate(data[4:]))
        out[name] = data
    return out


def invert_recover_program(rprog):
    """recover program (server output, recover order, int lengths) -> profile-order transform program"""
    return list(reversed(rprog))
