"""Reference builders for payload containers: synthetic PE images, the XorEncoder, Guardrails masking.
Written from the formats; nothing here imports the library."""

from __future__ import annotations

import struct

STUB_X86 = bytes.fromhex("e8000000005b")
STUB_X64 = bytes.fromhex("554889e54881")
BOOT_X86 = bytes.fromhex("e8000000005b89df5589e581c3457c0000ffd368f0b5a256680400000057ffd0")
BOOT_X64 = bytes.fromhex("554889e54881ec20000000488d1deaffffff4889df4881c3a46e0100ffd341b8f0b5a25668040000005a4889f9ffd0")
MACHINE = {"x86": 0x014C, "x64": 0x8664}


def rx1(data, k):
    """single byte xor"""
    return bytes(b ^ k for b in data) if k else bytes(data)


def rxk(data, key):
    """repeating key xor"""
    kl = len(key)
    return bytes(b ^ key[i % kl] for i, b in enumerate(data))


def filler(rng, n, kind="random"):
    """n bytes of filler that contain neither ff ff ff (XorEncode end-of-stub marker) nor long 00 runs that
    would be mistaken for structure; kind in random|zero|text|byte:<n>"""
    if kind == "zero":
        return bytes(n)
    if kind.startswith("byte:"):
        return bytes([int(kind[5:])]) * n
    if kind == "text":
        words = [b"the ", b"quick ", b"brown ", b"fox ", b"jumps ", b"over ", b"\r\n", b"lazy ", b"dog. "]
        out = bytearray()
        while len(out) < n:
            out += rng.choice(words)
        return bytes(out[:n])
    b = bytearray(rng.randbytes(n))
    for i in range(len(b)):
        if b[i] == 0xFF:
            b[i] = 0x7F
    return bytes(b)


def build_pe(
    rng,
    arch="x86",
    lfanew=0x80,
    magic_mz=b"MZ",
    magic_pe=b"PE",
    compile_stamp=0x5F94C216,
    export_stamp=0x5FA0B201,
    nsec=3,
    export_section=1,
    data=b"",
    data_section=None,
    sec_raw=0x200,
    vsize_mode="raw",
    export_at_start=False,
    dos_mode="random",
    dos_stub_start=b"",
    opt_magic=None,
):
    """Returns (image bytes, info).  export_section None = no export directory.  `data` is placed at the
    start of section `data_section` (default: the last one)."""
    assert 64 <= lfanew < 1024 and 1 <= nsec <= 8
    stub = STUB_X86 if arch == "x86" else STUB_X64
    dos = bytearray(rng.randbytes(lfanew))
    for i in range(len(dos)):  # keep the DOS area free of accidental stubs / markers
        if dos[i] in (0xE8, 0x55, 0xFF):
            dos[i] = 0x11
    hdr = magic_mz + stub
    if dos_mode == "genuine":
        # the DOS header as Cobalt Strike ships it: magic, the complete reflective-loader bootstrap, NULs up to e_lfanew
        # (small little-endian dwords such as e8 00 00 00 / 04 00 00 00 / 20 00 00 00 inside the first 60 bytes)
        hdr = magic_mz + (BOOT_X86 if arch == "x86" else BOOT_X64)
        dos = bytearray(lfanew)
        hdr = hdr[:60]
    dos[: len(hdr)] = hdr
    struct.pack_into("<I", dos, 0x3C, lfanew)
    if dos_stub_start and lfanew >= 64 + len(dos_stub_start):
        dos[64 : 64 + len(dos_stub_start)] = dos_stub_start  # first bytes of the DOS stub program, right behind e_lfanew
    optsize = 224 if arch == "x86" else 240
    filehdr = struct.pack("<HHIIIHH", MACHINE[arch], nsec, compile_stamp, 0, 0, optsize, 0x2102)
    headers_size = lfanew + 4 + 20 + optsize + 40 * nsec
    headers_al = (headers_size + 0x1FF) & ~0x1FF
    if data_section is None:
        data_section = nsec - 1
    contents = []
    for i in range(nsec):
        if i == data_section and data:
            body = bytes(data).ljust((len(data) + 0x1FF) & ~0x1FF, b"\0")
        else:
            body = filler(rng, sec_raw)
        contents.append(bytearray(body))
    export_rva = 0
    exp_off_in_sec = 0
    if export_section is not None:
        export_section = es = min(export_section, nsec - 1)
        if es == data_section and data:
            exp_off_in_sec = len(contents[es])
            contents[es] += bytes(0x200)
        else:
            exp_off_in_sec = 0 if export_at_start else rng.choice([0, 0x10, 0x100])
        exp_dir = struct.pack("<IIHHIIIIIII", 0, export_stamp, 0, 0, 0, 1, 0, 0, 0, 0, 0)
        contents[es][exp_off_in_sec : exp_off_in_sec + len(exp_dir)] = exp_dir
    secs = []
    raw = headers_al
    va = 0x1000
    sec_info = []
    for i, cn in enumerate(contents):
        name = [b".text", b".rdata", b".data", b".pdata", b".rsrc", b".reloc", b".tls", b".x"][i]
        # vsize_mode "raw": VirtualSize == SizeOfRawData (gaps between sections in memory);
        # "aligned": VirtualSize = size rounded up to the section alignment, so sections are contiguous in memory and
        # VirtualSize != SizeOfRawData (the usual shape of .data/.bss)
        vsize = len(cn) if vsize_mode == "raw" else (len(cn) + 0xFFF) & ~0xFFF
        secs.append(struct.pack("<8sIIIIIIHHI", name, vsize, va, len(cn), raw, 0, 0, 0, 0, 0x60000020))
        sec_info.append({"va": va, "raw": raw, "size": len(cn)})
        if export_section == i:
            export_rva = va + exp_off_in_sec
        raw += len(cn)
        va += (len(cn) + 0xFFF) & ~0xFFF
    opt = bytearray(optsize)
    # optional-header magic: the standard value unless blanked / customised (stages scrub such fields)
    struct.pack_into("<H", opt, 0, (0x10B if arch == "x86" else 0x20B) if opt_magic is None else opt_magic)
    struct.pack_into("<I", opt, 60, headers_al)
    ddoff = 96 if arch == "x86" else 112
    struct.pack_into("<I", opt, ddoff - 4, 16)
    struct.pack_into("<II", opt, ddoff, export_rva, 40 if export_rva else 0)
    img = bytes(dos) + magic_pe.ljust(4, b"\0") + filehdr + bytes(opt) + b"".join(secs)
    img = img.ljust(headers_al, b"\0") + b"".join(bytes(c) for c in contents)
    info = {
        "arch": arch, "lfanew": lfanew, "magic_mz": magic_mz, "magic_pe": magic_pe, "compile_stamp": compile_stamp,
        "export_stamp": export_stamp if export_section is not None else None, "size": len(img),
        "data_offset": sec_info[data_section]["raw"], "sections": sec_info,
    }
    return img, info


def xorencode(plain, nonce, stub=b"", marker=True, size_ok=True, trailing=b""):
    """Cobalt Strike XorEncoder: stub [ff ff ff] | nonce | len^nonce | rolling 4-byte XOR of plain.
    Returns (encoded bytes, nonce_offset)."""
    out = bytearray()
    prev = nonce
    for i in range(0, len(plain), 4):
        e = bytes(a ^ b for a, b in zip(plain[i : i + 4], prev))
        out += e
        prev = e
    # a "wrong" size must satisfy neither len(plain) nor the size relation with the trailing bytes
    size = len(plain) if size_ok else (len(plain) + len(trailing) + 13) & 0xFFFFFFFF
    encsize = bytes(a ^ b for a, b in zip(struct.pack("<I", size), nonce))
    head = stub + (b"\xff\xff\xff" if marker else b"")
    return head + nonce + encsize + bytes(out) + trailing, len(head)


def payload_checksum(data):
    n = 0
    for i, b in enumerate(data):
        n = (n + b * (i % 3 + 1)) % 99999999
    return n


def guard_block(rng, cfg, envkey, opts, stored_checksum=None, rnd_pad=False, guard_truncate=None, guard_plain_mutator=None):
    """Guardrails: 6144-byte masked configuration followed by the 2048-byte masked guard configuration.
    opts: list of (option, type, value bytes).  Returns (bytes, info)."""
    from vf.ref.tlv import S

    if rnd_pad:
        padded = cfg + b"\0\0" + rng.randbytes(6144 - len(cfg) - 2)
    else:
        padded = cfg.ljust(6144, b"\0")
    assert len(padded) == 6144
    checksum = payload_checksum(padded) + 1
    stored = checksum if stored_checksum is None else stored_checksum
    masked_beacon = rx1(rxk(padded, envkey), 0x2E)
    g = b"".join(S(o, t, v) for o, t, v in opts) + S(9, 2, struct.pack(">I", stored)) + b"\0\0"
    g = g + rng.randbytes(2048 - len(g))
    if guard_plain_mutator is not None:
        g = guard_plain_mutator(g)[:2048].ljust(2048, b"\0")
    masked_guard = rx1(bytes(a ^ b for a, b in zip(g, masked_beacon[::-1][:2048])), 0x8A)
    if guard_truncate is not None:
        masked_guard = masked_guard[:guard_truncate]
    return masked_beacon + masked_guard, {"checksum": checksum, "stored": stored, "padded": padded, "guard_plain": g}
