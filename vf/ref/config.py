"""Reference builder of complete beacon configurations (settings list + the model it was built from).
Used by C07 (sessions), C13 (profile generation), C14 (immutability) and C17 (Guardrails)."""

from __future__ import annotations

import struct

from vf.ref import crypto, tables, tlv

OPC = tables.TRANSFORM_OPCODES
ARGUMENT = ["_HEADER", "HEADER", "PARAMETER", "_PARAMETER", "_HOSTHEADER", "APPEND", "PREPEND"]
RECOVER_OPS = {"append": 1, "prepend": 2, "base64": 3, "print": 4, "netbios": 8, "netbiosu": 11, "base64url": 13, "mask": 15}
TEXT_ENCODERS = ["BASE64", "BASE64URL", "NETBIOS", "NETBIOSU"]


def u32(n):
    return struct.pack(">I", n)


def enc_transform(prog, terminate=True):
    out = bytearray()
    for op, arg in prog:
        out += u32(OPC[op])
        if op == "BUILD":
            out += u32(arg)
        elif op in ARGUMENT:
            out += u32(len(arg)) + arg
    if terminate:
        out += u32(0)
    return bytes(out)


def enc_recover(prog, terminate=True):
    out = bytearray()
    for op, arg in prog:
        out += u32(RECOVER_OPS[op])
        if op in ("append", "prepend"):
            out += u32(arg)
    if terminate:
        out += u32(0)
    return bytes(out)


def enc_execute(items, terminate=True):
    out = bytearray()
    for it in items:
        out.append(tables.INJECT_EXECUTORS[it[0]])
        if len(it) > 1:
            _, off, mod, fn = it[:4]
            m = mod.encode() + b"\0"
            f = fn.encode() + b"\0"
            out += struct.pack(">H", off) + u32(len(m)) + m + u32(len(f)) + f
    if terminate:
        out.append(0)
    return bytes(out)


PRINTABLE = bytes(range(0x21, 0x7F))
TOKEN = b"abcdefghijklmnopqrstuvwxyzABCDEFGHIJKLMNOPQRSTUVWXYZ0123456789-_"


def _text(rng, n, alphabet=TOKEN):
    return bytes(rng.choice(alphabet) for _ in range(n))


def hostile_bytes(rng, maxlen=12):
    """byte strings around the escaping rules of profile literals: backslashes next to either quote, trailing backslashes"""
    r = rng.random()
    if r < 0.5:
        return rng.choice([b"\\'", b"'\\", b"\\\\'", b"a\\'b", b'\\"', b"\\", b"\\\\", b"'", b'"', b"x\\", b"\\n", b"\\x41", b"%s\\'%s"])
    alpha = [b"\\", b"'", b'"', b"a", b"\n", b";", b"\xff", b"\x00", b"x", b"{", b"#"]
    return b"".join(rng.choice(alpha) for _ in range(rng.randrange(0, maxlen)))


def gen_block_steps(rng, sink, hostile=False):
    """encoder steps of one build block whose result must be printable when the sink is textual"""
    steps = []
    for _ in range(rng.choice([0, 0, 1, 2, 3])):
        op = rng.choice(["MASK", "BASE64", "BASE64URL", "NETBIOS", "NETBIOSU", "PREPEND", "APPEND"])
        if op in ("PREPEND", "APPEND"):
            arg = rng.randbytes(rng.randrange(0, 12)) if (hostile or sink == "PRINT") and rng.random() < 0.5 else _text(rng, rng.randrange(1, 12))
            if hostile and sink == "PRINT" and rng.random() < 0.4:
                arg = hostile_bytes(rng)
            steps.append((op, arg))
        else:
            steps.append((op, True))
    if sink != "PRINT":
        # the last encoder must be a text encoder and only printable decorations may follow it
        enc = rng.choice(TEXT_ENCODERS if sink != "URI_APPEND" else ["BASE64URL", "NETBIOS", "NETBIOSU"])
        steps = [s for s in steps if not (s[0] in ("PREPEND", "APPEND") and any(c not in TOKEN for c in s[1]))]
        steps.append((enc, True))
        for _ in range(rng.choice([0, 0, 1, 2])):
            steps.append((rng.choice(["PREPEND", "APPEND"]), _text(rng, rng.randrange(1, 10))))
        if sink == "HEADER" and rng.random() < 0.25:
            # cookie-like decorations: a header value may itself hold ": " and "; "
            steps.append((rng.choice(["PREPEND", "APPEND"]), rng.choice([b"lang=en; sid: ", b"a: b", b": ", b" path=/; note: x: y"])))
    return steps


def gen_client_program(rng, builds, allow_uri=True, hostile=False):
    """builds: list of (build type int, name).  Returns program [(OP, arg)] for enc_transform."""
    prog = []
    sinks = set()
    statics = []
    for _ in range(rng.choice([0, 1, 2, 3])):
        if rng.random() < 0.7:
            k = rng.choice([b"Accept", b"Accept-Language", b"Referer", b"X-Requested-With", b"Cache-Control"])
            v = rng.choice([b"*/*", b"en-US,en;q=0.5", b"http://code.jquery.com/", b"XMLHttpRequest", b"no-cache"])
            if hostile and rng.random() < 0.5:
                v = bytes(rng.choice(PRINTABLE) for _ in range(rng.randrange(1, 20)))
            statics.append(("_HEADER", k + b": " + v))
        else:
            k = _text(rng, rng.randrange(1, 6)) + b"%d" % len(statics)
            # values may contain '=' (e.g. base64 padding, "oe=ISO-8859-1"); names may not
            v = _text(rng, rng.randrange(1, 8)) + rng.choice([b"", b"", b"==", b"=a=b"]) if not hostile else bytes(rng.choice(PRINTABLE) for _ in range(rng.randrange(1, 8)))
            statics.append(("_PARAMETER", k + b"=" + v))
    rng.shuffle(statics)
    cut = rng.randrange(0, len(statics) + 1)
    prog += statics[:cut]
    for btype, name in builds:
        choices = ["PRINT", "HEADER", "PARAMETER"] + (["URI_APPEND"] if allow_uri else [])
        if name == "output":
            choices = ["PRINT", "PRINT", "PRINT", "HEADER", "PARAMETER"]
        while True:
            t = rng.choice(choices)
            key = (t, None) if t in ("PRINT", "URI_APPEND") else (t, rng.choice([b"Cookie", b"X-Session", b"id", b"q", b"__cfduid", b"token"]))
            if key not in sinks and not (t == "HEADER" and key[1] in (b"id", b"q")):
                sinks.add(key)
                break
        prog.append(("BUILD", btype))
        prog += gen_block_steps(rng, t, hostile)
        prog.append((t, key[1] if key[1] is not None else True))
    prog += statics[cut:]
    return prog


def gen_recover_program(rng):
    prog = [("print", True)]
    for _ in range(rng.choice([0, 1, 2, 3, 5])):
        op = rng.choice(["append", "prepend", "base64", "base64url", "netbios", "netbiosu", "mask"])
        prog.append((op, rng.choice([0, 1, 3, 84, 1522]) if op in ("append", "prepend") else True))
    return prog


def build_http_config(rng, keyname="rsa1024_a", hostile=False, extras=True, allow_uri=True):
    """Returns (settings [(index, type, value)], model dict)."""
    key = crypto.load_key(keyname)
    der = key.publickey().export_key("DER")
    m = {"keyname": keyname}
    m["protocol"] = rng.choice([0, 8])
    m["port"] = rng.choice([80, 443, 8080, rng.randrange(1, 65536)])
    m["sleeptime"] = rng.choice([0, 1000, 60000, rng.randrange(0, 2**31)])
    m["jitter"] = rng.randrange(0, 100)
    m["maxget"] = rng.choice([1048576, 1403644])
    ndom = rng.randrange(1, 4)
    m["domains"] = [(_text(rng, rng.randrange(3, 12), b"abcdefghijklmnopqrstuvwxyz0123456789") + rng.choice([b".com", b".net", b".example.org"])).decode() for _ in range(ndom)]
    uris = []
    for _ in range(ndom):
        # RFC 3986 path characters beyond letters/digits appear in real profiles (e.g. "/jquery-3.3.1.min.js", "/search;type=web")
        seg_alpha = TOKEN if rng.random() < 0.7 else TOKEN + b";:@=$!*.~"
        uris.append("/" + "/".join(_text(rng, rng.randrange(1, 9), seg_alpha).decode() for _ in range(rng.randrange(1, 3))) + rng.choice(["", ".js", ".gif", ".php", ";v=1", "/", ";"]))
    # '.' and '..' path segments are removed by URL normalisation in the client (httpx)
    uris = ["/".join("d" + seg if seg in (".", "..") or seg.startswith(("./", "../")) else seg for seg in u.split("/")) for u in uris]
    if allow_uri and rng.random() < 0.12:
        # an empty first path segment: a path, not a network-path reference ("//cdn/pixel.gif" is requested from the C2 host)
        uris = ["/" + u for u in uris]
    if rng.random() < 0.3:
        uris = [uris[0]] * ndom
    elif ndom > 1 and rng.random() < 0.25:
        # one C2 host listed several times, each time with another URI (the client picks any of the pairs)
        m["domains"] = [m["domains"][0]] * ndom
    m["uris"] = uris
    m["submit_uri"] = "/" + _text(rng, rng.randrange(2, 10)).decode() + rng.choice([".php", "", "/submit", ";jsessionid=1", ".php;x", "/"])
    if allow_uri and rng.random() < 0.1:
        m["submit_uri"] = "/" + m["submit_uri"]
    while any(m["submit_uri"].startswith(u) or u.startswith(m["submit_uri"]) for u in uris):
        m["submit_uri"] = "/" + _text(rng, rng.randrange(4, 12)).decode() + "S"
    ua = "Mozilla/5.0 (Windows NT 10.0; Win64; x64) " + _text(rng, rng.randrange(0, 60), b"abcdefghijklmnopqrstuvwxyz /.;()0123456789").decode()
    if hostile and rng.random() < 0.6:
        ua = bytes(rng.choice(PRINTABLE + b"  ") for _ in range(rng.randrange(1, 100))).decode().strip() or "x"
    if hostile and rng.random() < 0.3:
        # one byte per character: characters U+0080..U+00FF are single bytes of the setting
        pos = rng.randrange(0, len(ua) + 1)
        ua = (ua[:pos] + rng.choice(["\u00e9", "\u00fc", "\u00a9 2024", "Caf\u00e9"]) + ua[pos:]).strip() or "x"
    m["useragent"] = ua[:126]
    m["verb_get"] = rng.choice(["GET", "GET", "POST"])
    m["verb_post"] = rng.choice(["POST", "POST", "GET"])
    if m["verb_get"] != m["verb_post"] and len(m["uris"][0]) < 60 and rng.random() < 0.08:
        # the same URI for check-ins and callbacks, told apart by the verb alone (routing is by verb AND URI prefix)
        m["submit_uri"] = m["uris"][0]
    m["get_prog"] = gen_client_program(rng, [(0, "metadata")], allow_uri=allow_uri, hostile=hostile)
    builds = [(0, "id"), (1, "output")]
    if rng.random() < 0.3:
        builds.reverse()
    m["post_prog"] = gen_client_program(rng, builds, allow_uri=allow_uri, hostile=hostile)
    m["recover_prog"] = gen_recover_program(rng)
    m["watermark"] = rng.getrandbits(32)
    m["spawnto_x86"] = "%windir%\\syswow64\\" + rng.choice(["rundll32.exe", "dllhost.exe", "gpupdate.exe"] + (["m\u00fcll.exe"] if hostile else []))
    m["spawnto_x64"] = "%windir%\\sysnative\\" + rng.choice(["rundll32.exe", "dllhost.exe", "gpupdate.exe"])
    s = [
        (1, 1, struct.pack(">H", m["protocol"])), (2, 1, struct.pack(">H", m["port"])), (3, 2, u32(m["sleeptime"])), (4, 2, u32(m["maxget"])),
        (5, 1, struct.pack(">H", m["jitter"])), (7, 3, der.ljust(256, b"\0")),
        (8, 3, ",".join(f"{d},{u}" for d, u in zip(m["domains"], m["uris"])).encode().ljust(256, b"\0")),
        (9, 3, m["useragent"].encode("latin-1").ljust(128, b"\0")), (10, 3, m["submit_uri"].encode().ljust(64, b"\0")),
        (11, 3, enc_recover(m["recover_prog"]).ljust(256, b"\0")), (12, 3, enc_transform(m["get_prog"]).ljust(512, b"\0")),
        (13, 3, enc_transform(m["post_prog"]).ljust(512, b"\0")),
        (26, 3, m["verb_get"].encode().ljust(16, b"\0")), (27, 3, m["verb_post"].encode().ljust(16, b"\0")),
        (28, 2, u32(0)), (29, 3, m["spawnto_x86"].encode("latin-1").ljust(64, b"\0")), (30, 3, m["spawnto_x64"].encode().ljust(64, b"\0")),
        (31, 1, struct.pack(">H", 0)), (37, 2, u32(m["watermark"])),
    ]
    # present in every 4.x beacon and required by the library's client
    m["host_header"] = rng.choice(["", "", "Host: cdn.example.com\r\n"])
    s.append((54, 3, m["host_header"].encode().ljust(128, b"\0")))
    if extras:
        opt = []
        m["killdate"] = rng.choice([0, 20301231])
        opt.append((40, 2, u32(m["killdate"])))
        m["cleanup"] = rng.choice([0, 1])
        opt.append((38, 1, struct.pack(">H", m["cleanup"])))
        m["startrwx"] = rng.choice([64, 4])
        m["userwx"] = rng.choice([64, 32])
        m["min_alloc"] = rng.choice([0, 4096, 17500])
        opt += [(43, 1, struct.pack(">H", m["startrwx"])), (44, 1, struct.pack(">H", m["userwx"])), (45, 2, u32(m["min_alloc"]))]
        m["allocator"] = rng.choice([0, 1])
        opt.append((52, 1, struct.pack(">H", m["allocator"])))
        items = []
        for _ in range(rng.randrange(0, 5)):
            name = rng.choice(list(tables.INJECT_EXECUTORS))
            if name.endswith("_") and name != "NtQueueApcThread_s":
                mods, fns = ["ntdll", "kernel32.dll"], ["RtlUserThreadStart", "LoadLibraryA"]
                if hostile:  # printable text that the profile language would read as escapes if it were written unescaped
                    mods += ["c:\\temp\\ntdll", "a\"b", "m\\x41"]
                    fns += ["Rtl\\", "f\\u0041", "g'h"]
                items.append((name, rng.choice([0, 0x10, 0x2F0]), rng.choice(mods), rng.choice(fns)))
            else:
                items.append((name,))
        m["execute"] = items
        opt.append((51, 3, enc_execute(items).ljust(128, b"\0")))
        a, b = rng.randbytes(rng.choice([0, 2, 9])), rng.randbytes(rng.choice([0, 2, 9]))
        if hostile:
            a, b = hostile_bytes(rng), hostile_bytes(rng)
        m["procinj_x86"] = (a, b)
        opt.append((46, 3, (u32(len(a)) + a + u32(len(b)) + b).ljust(256, b"\0")))
        # (NUL-only code bytes - `add [rax], al` padding - are non-empty values like any other)
        a, b = (rng.choice([b"", rng.randbytes(3), rng.randbytes(3), b"\0" * rng.choice([1, 2, 4])]) for _ in range(2))
        m["procinj_x64"] = (a, b)
        opt.append((47, 3, (u32(len(a)) + a + u32(len(b)) + b).ljust(256, b"\0")))
        m["stub"] = rng.randbytes(16)
        opt.append((53, 3, m["stub"]))
        if rng.random() < 0.5:
            m["bof_reuse"] = rng.choice([0, 1])
            m["bof_allocator"] = rng.choice(list(tables.BOF_ALLOCATORS))
            opt += [(48, 1, struct.pack(">H", m["bof_reuse"])), (16, 1, struct.pack(">H", tables.BOF_ALLOCATORS[m["bof_allocator"]]))]
        if rng.random() < 0.5:
            m["data_store_size"] = rng.choice([16, 32, rng.randrange(1, 1000)])
            opt.append((76, 2, u32(m["data_store_size"])))
        if rng.random() < 0.5:
            m["data_required"] = rng.choice([0, 1])
            opt.append((77, 1, struct.pack(">H", m["data_required"])))
            m["beacon_gate"] = [rng.choice([0, 1]) if rng.random() < 0.7 else 1 for _ in range(23)]
            if rng.random() < 0.5:
                # group boundaries: everything, everything but one API, exactly one group (+/- one API)
                v = [1] * 23
                kind = rng.choice(["all", "all-1", "comms", "core", "cleanup", "core-1", "comms+core"])
                if kind == "all-1":
                    v[rng.randrange(23)] = 0
                elif kind == "comms":
                    v = [1, 1] + [0] * 21
                elif kind == "core":
                    v = [0, 0] + [1] * 20 + [0]
                elif kind == "cleanup":
                    v = [0] * 22 + [1]
                elif kind == "core-1":
                    v = [0, 0] + [1] * 20 + [0]
                    v[rng.randrange(2, 22)] = 0
                elif kind == "comms+core":
                    v = [1] * 22 + [0]
                m["beacon_gate"] = v
            opt.append((78, 3, bytes(m["beacon_gate"])))
        if rng.random() < 0.5:
            m["sleep_mask"] = rng.choice([0, 1])
            opt.append((41, 1, struct.pack(">H", m["sleep_mask"])))
        if rng.random() < 0.3:
            hdr = rng.randbytes(rng.choice([0, 3, 8])) if not hostile else hostile_bytes(rng)
            m["tcp_frame_header"] = hdr
            opt.append((58, 3, (struct.pack(">H", len(hdr) + 4) + hdr + b"\0\0\0\0").ljust(128, b"\0")))
            hdr = rng.randbytes(rng.choice([0, 5]))
            m["smb_frame_header"] = hdr
            opt.append((57, 3, (struct.pack(">H", len(hdr) + 4) + hdr + b"\0\0\0\0").ljust(128, b"\0")))
        rng.shuffle(opt)
        s += opt
    m["settings_order"] = [i for i, _, _ in s]
    return s, m


def settings_block(settings):
    return tlv.encode(settings) + b"\0\0"
