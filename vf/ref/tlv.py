"""Reference model of the beacon settings block (written from the format, not from the library)."""

import struct

TYPE_NONE, TYPE_SHORT, TYPE_INT, TYPE_PTR = 0, 1, 2, 3
UA = 9


def S(index, typ, value):
    return struct.pack(">HHH", index, typ, len(value)) + value


def short(index, v):
    return S(index, TYPE_SHORT, struct.pack(">H", v))


def integer(index, v):
    return S(index, TYPE_INT, struct.pack(">I", v))


def ptr(index, v, pad=None):
    if pad is not None:
        v = v.ljust(pad, b"\0")
    return S(index, TYPE_PTR, v)


def encode(settings):
    """settings: iterable of (index, type, value-bytes)"""
    return b"".join(S(i, t, v) for i, t, v in settings)


def ref_parse(block):
    """[(index, type, declared_length, value)] exactly as serialised.

    Records end at a zero index or at end of data; an incomplete last record is dropped.  A User-Agent
    (index 9) of declared length 0x80 that is over-long - no NUL anywhere in the field - continues to the next NUL (not
    consumed) or to end of data."""
    out = []
    pos = 0
    n = len(block)
    while True:
        if block[pos : pos + 2] == b"\x00\x00":
            break
        if n - pos < 6:
            break
        idx, typ, ln = struct.unpack_from(">HHH", block, pos)
        if pos + 6 + ln > n:
            break
        val = block[pos + 6 : pos + 6 + ln]
        pos += 6 + ln
        if idx == UA and ln == 0x80 and b"\x00" not in val:
            end = block.find(b"\x00", pos)
            if end == -1:
                end = n
            val += block[pos:end]
            pos = end
        out.append((idx, typ, ln, val))
    return out
