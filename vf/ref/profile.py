"""Reference machinery for the Malleable C2 profile language: own tokenizer, own literal encoder/decoder,
sentence generator over the frozen language table (emits text + a model of what the text says)."""

from __future__ import annotations

from vf.ref.profile_lang import LANG

EXCLUDED_ALIASES = {"comment_dns_resolver"}  # '#' starts a comment: this production is not a sentence form of the text language
VARIANT_BLOCKS = {"https-certificate", "http-stager", "http-get", "http-post"}


# ---- tokenizer --------------------------------------------------------------------------------------------------
def tokenize(text):
    """-> list of tokens: keywords/words, '{', '}', ';', string literals (with quotes).  Comments and whitespace dropped."""
    out = []
    i = 0
    n = len(text)
    while i < n:
        c = text[i]
        if c in " \t\r\n\f\v":
            i += 1
        elif c == "#":
            while i < n and text[i] != "\n":
                i += 1
        elif c in "{};":
            out.append(c)
            i += 1
        elif c == '"':
            j = i + 1
            while True:
                if j >= n:
                    raise ValueError("unterminated string literal")
                if text[j] == "\\":
                    j += 2
                    continue
                if text[j] == '"':
                    break
                j += 1
            out.append(text[i : j + 1])
            i = j + 1
        else:
            j = i
            while j < n and text[j] not in ' \t\r\n\f\v{};"#':
                j += 1
            out.append(text[i:j])
            i = j
    return out


# ---- literals -------------------------------------------------------------------------------------------------------
def lit_encode(data, rng, hostile=True):
    """bytes -> literal text (between the quotes), choosing among equivalent spellings"""
    out = []
    for b in data:
        ch = chr(b)
        if ch == '"':
            out.append('\\"')
        elif ch == "\\":
            out.append("\\\\")
        elif ch == "\n":
            out.append(rng.choice(["\\n", "\n", "\\x0a"]) if hostile else "\\n")
        elif ch == "\r":
            out.append(rng.choice(["\\r", "\\x0d", "\r"]) if hostile else "\\r")
        elif ch == "\t":
            out.append(rng.choice(["\\t", "\t"]))
        elif ch == "'":
            out.append(rng.choice(["'", "\\'"]))
        elif 0x20 <= b < 0x7F:
            out.append(ch if rng.random() < 0.97 or not hostile else rng.choice(["\\x%02x" % b, "\\u00%02x" % b]))
        else:
            out.append(rng.choice(["\\x%02x" % b, "\\x%02X" % b, "\\u00%02x" % b]))
    return "".join(out)


def lit_decode(text):
    out = bytearray()
    i = 0
    n = len(text)
    while i < n:
        c = text[i]
        if c == "\\" and i + 1 < n:
            e = text[i + 1]
            if e == "x":
                out.append(int(text[i + 2 : i + 4], 16))
                i += 4
            elif e == "u":
                out.append(int(text[i + 2 : i + 6], 16) & 0xFF)
                i += 6
            elif e in "nrt":
                out.append({"n": 10, "r": 13, "t": 9}[e])
                i += 2
            elif e in "\\\"'":
                out.append(ord(e))
                i += 2
            else:
                raise ValueError(f"unknown escape \\{e}")
        else:
            out.append(ord(c) & 0xFF)
            i += 1
    return bytes(out)


def gen_value(rng, hostile):
    r = rng.random()
    if r < 0.5 or not hostile:
        words = [b"true", b"false", b"1000", b"/api/v1/status", b"Mozilla/5.0 (Windows NT 10.0)", b"rundll32.exe", b"Cookie", b"Host",
                 b"example.com", b"%windir%\\sysnative\\dllhost.exe", b"SESSIONID=", b"application/json", b"60000", b"ntdll.dll!RtlUserThreadStart+0x21"]
        return rng.choice(words)
    if r < 0.75:
        alpha = [b'"', b"\\", b";", b"{", b"}", b"#", b"\n", b"x", b"u", b"'", b" ", b"a", b"set", b"\t", b"\r"]
        return b"".join(rng.choice(alpha) for _ in range(rng.randrange(0, 12)))
    return rng.randbytes(rng.randrange(0, 24))


# ---- sentence generator ------------------------------------------------------------------------------------------------
class Sentence:
    def __init__(self):
        self.tokens = []  # token texts in order
        self.statements = []  # model: dicts {path, kw, args (raw texts), vals (bytes), rule, alias}
        self.productions = set()  # (rule, alias or index) used
        self.blocks = []  # every block opened, in source order: {path, apath}


def _alts(rule):
    return [a for a in LANG[rule] if a["alias"] not in EXCLUDED_ALIASES]


def gen_profile(rng, max_statements=40, hostile=True, force=None, variants=True):
    """force: optional list of (rule, alt index) that must appear (used for the one-production-per-profile sweep)."""
    s = Sentence()
    budget = [max_statements]

    def emit_string(st):
        val = gen_value(rng, hostile)
        raw = lit_encode(val, rng, hostile)
        s.tokens.append('"' + raw + '"')
        if st is not None:
            st["args"].append(raw)
            st["vals"].append(val)

    def expand(rule, alt, path, forced, apath=()):
        """forced: remaining chain [(rule, alt index), ...] that must be taken below this node (forcing mode)"""
        s.productions.add((rule, alt["alias"] if alt["alias"] else "#%d" % LANG[rule].index(alt)))
        items = alt["items"]
        is_block = ("kw", "{") in items
        st = None
        if not is_block and ("kw", ";") in items:
            st = {"path": tuple(path), "apath": tuple(apath), "kw": [], "args": [], "vals": [], "rule": rule, "alias": alt["alias"]}
        newpath = list(path)
        newapath = tuple(apath) + ((alt["alias"] or rule,) if is_block or rule in ("data_transform",) else ())
        if is_block:
            s.blocks.append({"path": None, "apath": newapath, "n_children": 0})
            blk = s.blocks[-1]
        for kind, val in items:
            if kind == "kw":
                s.tokens.append(val)
                if val in ("{", "}", ";", "set"):
                    continue
                if is_block:
                    newpath.append(val)
                elif st is not None:
                    st["kw"].append(val)
            elif kind == "ref" and val == "string":
                emit_string(st)
            elif kind == "ref" and val == "OPTION":
                name = rng.choice(LANG["OPTION"])
                s.tokens.append(name)
                st["kw"].append(name)
            elif kind == "opt":  # variant
                if variants and rng.random() < 0.35:
                    # (only the exact name "default" stands for the block without a variant)
                    v = rng.choice([b"default", b"variant1", b"my variant", b"v-2", b"Default", b"DEFAULT", b"default ", b"defaults"])
                    raw = lit_encode(v, rng, False)
                    s.tokens.append('"' + raw + '"')
                    newpath.append('"' + raw + '"')
            elif kind in ("star", "ref"):
                sub = val
                if forced and forced[0][0] == sub:
                    expand(sub, LANG[sub][forced[0][1]], newpath, forced[1:], newapath)
                    if kind == "star" and force is None:
                        pass
                elif kind == "ref":
                    expand(sub, rng.choice(_alts(sub)), newpath, [], newapath)
                elif force is None:
                    k = rng.choice([0, 1, 1, 2, 3, 5])
                    while k > 0 and budget[0] > 0:
                        budget[0] -= 1
                        expand(sub, rng.choice(_alts(sub)), newpath, [], newapath)
                        k -= 1
        if st is not None:
            s.statements.append(st)
        if is_block:
            blk["path"] = tuple(newpath)

    if force:
        expand("value", LANG["value"][force[0][1]], [], list(force[1:]))
    else:
        n = rng.choice([1, 2, 3, 5, 8, 12])
        for _ in range(n):
            if budget[0] <= 0:
                break
            budget[0] -= 1
            expand("value", rng.choice(_alts("value")), [], [])
    return s


def render(tokens, rng, noise=True):
    out = []
    indent = 0
    for t in tokens:
        if t == "}":
            indent = max(indent - 1, 0)
        if noise and rng.random() < 0.05:
            out.append(rng.choice(["# a comment ; { } \"\n", "\n\n", "#\n", "   "]))
        if t in ";":
            out.append(";" + rng.choice(["\n", "\n", " ", "\n\n"]) if noise else ";\n")
        elif t == "{":
            out.append(" {\n")
            indent += 1
        elif t == "}":
            out.append("}\n")
        else:
            out.append((rng.choice([" ", "  ", "\t"]) if noise else " ") + t)
    return "".join(out)


def production_chains():
    """For every production reachable from 'value': a chain [(rule, alt index), ...] from value down to it."""
    chains = []

    def walk(rule, alt_i, chain):
        alt = LANG[rule][alt_i]
        if alt["alias"] in EXCLUDED_ALIASES:
            return
        here = chain + [(rule, alt_i)]
        chains.append(here)
        for kind, val in alt["items"]:
            if kind in ("star", "ref") and val in LANG and val not in ("OPTION",) and val != "string":
                if any(r == val for r, _ in here):
                    continue
                for j in range(len(LANG[val])):
                    walk(val, j, here)

    for i in range(len(LANG["value"])):
        walk("value", i, [])
    return chains


def parse_statements(text):
    """Own mini-parser of profile text: -> (statements [(path tuple, keyword, [decoded bytes args])] in source order,
    blocks [(path tuple, number of direct children)])."""
    toks = tokenize(text)
    stack = []
    counts = [0]
    blocks = []
    stmts = []
    cur = []
    for t in toks:
        if t == "{":
            words = [w for w in cur if not w.startswith('"')]
            variant = [w for w in cur if w.startswith('"')]
            counts[-1] += 1
            stack.append((words[-1] if words else "?", variant[0] if variant else None))
            counts.append(0)
            cur = []
        elif t == "}":
            path = tuple(w for w, v in stack)
            blocks.append((path, counts.pop()))
            stack.pop()
            cur = []
        elif t == ";":
            words = [w for w in cur if not w.startswith('"') and w != "set"]
            args = [lit_decode(w[1:-1]) for w in cur if w.startswith('"')]
            counts[-1] += 1
            stmts.append((tuple(w for w, v in stack), words[0] if words else "?", args))
            cur = []
        else:
            cur.append(t)
    if stack or cur:
        raise ValueError("unbalanced profile text")
    return stmts, blocks
