"""Reference crypto written out from the primitives (never calls the library's helpers):
CBC chaining over the raw AES block function, HMAC from ipad/opad over hashlib, textbook RSA with own
PKCS#1 v1.5 type-2 padding, own layout of the beacon metadata header."""

import hashlib
import os
import struct

from Crypto.Cipher import AES as _AES
from Crypto.PublicKey import RSA as _RSA

FIXTURES = os.path.join(os.path.dirname(os.path.dirname(os.path.dirname(os.path.abspath(__file__)))), "fixtures")


def cbc_encrypt(key, iv, data):
    assert len(data) % 16 == 0
    ecb = _AES.new(key, _AES.MODE_ECB)
    out = bytearray()
    prev = iv
    for i in range(0, len(data), 16):
        blk = bytes(a ^ b for a, b in zip(data[i : i + 16], prev))
        prev = ecb.encrypt(blk)
        out += prev
    return bytes(out)


def cbc_decrypt(key, iv, data):
    ecb = _AES.new(key, _AES.MODE_ECB)
    out = bytearray()
    prev = iv
    for i in range(0, len(data), 16):
        blk = data[i : i + 16]
        out += bytes(a ^ b for a, b in zip(ecb.decrypt(blk), prev))
        prev = blk
    return bytes(out)


def hmac_sha256(key, msg):
    if len(key) > 64:
        key = hashlib.sha256(key).digest()
    key = key.ljust(64, b"\0")
    ipad = bytes(b ^ 0x36 for b in key)
    opad = bytes(b ^ 0x5C for b in key)
    return hashlib.sha256(opad + hashlib.sha256(ipad + msg).digest()).digest()


def cs_pad(pt):
    return pt + b"A" * (16 - len(pt) % 16)


def ref_encrypt_packet(pt, aes_key, hmac_key, iv):
    ct = cbc_encrypt(aes_key, iv, cs_pad(pt))
    return ct, hmac_sha256(hmac_key, ct)[:16]


def frame(ct, sig):
    body = ct + sig
    return struct.pack(">I", len(body)) + body


# ---- RSA ---------------------------------------------------------------------------------------------
def load_key(name):
    with open(os.path.join(FIXTURES, name + ".pem"), "rb") as f:
        return _RSA.import_key(f.read())


def rsa_encrypt_pkcs1(rng, n, e, msg):
    k = (n.bit_length() + 7) // 8
    if len(msg) > k - 11:
        raise OverflowError("message too long")
    ps = bytes(rng.randrange(1, 256) for _ in range(k - 3 - len(msg)))
    em = b"\x00\x02" + ps + b"\x00" + msg
    return pow(int.from_bytes(em, "big"), e, n).to_bytes(k, "big")


def rsa_decrypt_pkcs1(n, d, ct):
    k = (n.bit_length() + 7) // 8
    if len(ct) != k:
        return None
    c = int.from_bytes(ct, "big")
    if c >= n:
        return None
    em = pow(c, d, n).to_bytes(k, "big")
    if em[:2] != b"\x00\x02":
        return None
    sep = em.find(b"\x00", 2)
    if sep < 10:
        return None
    return em[sep + 1 :]


# ---- metadata layout ---------------------------------------------------------------------------------------
META_FMT = ">II16sHHIIHBBBHIIII"
META_FIELDS = ["magic", "size", "aes_rand", "ansi_cp", "oem_cp", "bid", "pid", "port", "flag", "ver_major", "ver_minor",
               "ver_build", "ptr_x64", "ptr_gmh", "ptr_gpa", "ip"]
META_WIDTH = {"magic": 32, "size": 32, "ansi_cp": 16, "oem_cp": 16, "bid": 32, "pid": 32, "port": 16, "flag": 8,
              "ver_major": 8, "ver_minor": 8, "ver_build": 16, "ptr_x64": 32, "ptr_gmh": 32, "ptr_gpa": 32, "ip": 32}
META_HDR = struct.calcsize(META_FMT)
assert META_HDR == 59


def meta_pack(fields, info, size=None):
    f = dict(fields)
    f["size"] = (META_HDR + len(info) - 8) if size is None else size
    return struct.pack(META_FMT, *[f[k] for k in META_FIELDS]) + info


def meta_unpack(raw):
    vals = struct.unpack(META_FMT, raw[:META_HDR])
    f = dict(zip(META_FIELDS, vals))
    return f, raw[META_HDR:]
