"""Executes one shard of one property in its own process:  python -m vf.shard <prop> <shard.json> <out.json>"""

import array
import faulthandler
import importlib
import json
import sys
import traceback

from vf import core


def main():
    prop, shard_path, out_path = sys.argv[1:4]
    faulthandler.enable()
    with open(shard_path) as f:
        shard = core.jdec(json.load(f))
    core.load_library()
    mod = importlib.import_module(f"vf.props.{prop.lower()}")
    ctx = core.Ctx(prop, shard["tier"], shard["seed"], shard)
    status = "done"
    err = None
    try:
        if shard.get("replay") is not None:
            mod.check_case(shard["replay"], ctx)
        else:
            mod.run_shard(shard, ctx)
    except BaseException:  # harness failure, never a verdict on the property
        status = "harness-error"
        err = traceback.format_exc()
    res = ctx.result()
    res["status"] = status
    res["error"] = err
    with open(out_path + ".fps", "wb") as f:
        array.array("Q", sorted(ctx.fps)).tofile(f)
    core.dump(out_path, res)
    return 0 if status == "done" else 3


if __name__ == "__main__":
    sys.exit(main())
