"""Executes one shard of one property in its own process:  python -m vf.shard <prop> <shard.json> <out.json>"""

import array
import faulthandler
import importlib
import json
import sys
import traceback

from vf import core


def _guard_check_case(mod):
    """An exception that the library raises out of a call the check made, and that the check did not expect (did not
    catch), is a witness against the library, not a failure of the harness: record it as a violation with the case.
    Exceptions raised by the check's own code stay harness errors."""
    import os

    orig = mod.check_case
    repo = os.path.realpath(core.REPO) + os.sep
    here = os.path.dirname(os.path.realpath(__file__)) + os.sep

    def guarded(case, ctx):
        try:
            return orig(case, ctx)
        except Exception as e:  # noqa: BLE001  (BaseException: loop budget, watchdog - handled elsewhere)
            frames = traceback.extract_tb(e.__traceback__)
            files = [os.path.realpath(f.filename) for f in frames]
            last_own = max((i for i, f in enumerate(files) if f.startswith(here)), default=-1)
            lib = [frames[i] for i in range(last_own + 1, len(files)) if files[i].startswith(repo)]
            if not lib:
                raise
            f = lib[-1]
            ctx.violation("library.exception", f"{type(e).__name__}: {str(e)[:300]} - raised through {os.path.basename(f.filename)}:{f.lineno} "
                          f"({f.name}), an exception this check does not expect from that call", case)

    mod.check_case = guarded


def main():
    prop, shard_path, out_path = sys.argv[1:4]
    faulthandler.enable()
    with open(shard_path) as f:
        shard = core.jdec(json.load(f))
    core.load_library()
    mod = importlib.import_module(f"vf.props.{prop.lower()}")
    ctx = core.Ctx(prop, shard["tier"], shard["seed"], shard)
    _guard_check_case(mod)
    status = "done"
    err = None
    try:
        if shard.get("replay") is not None:
            mod.check_case(shard["replay"], ctx)
        else:
            mod.run_shard(shard, ctx)
    except BaseException:  # harness failure, never a verdict on the property
        status = "harness-error"
        err = traceback.format_exc()
    res = ctx.result()
    res["status"] = status
    res["error"] = err
    with open(out_path + ".fps", "wb") as f:
        array.array("Q", sorted(ctx.fps)).tofile(f)
    core.dump(out_path, res)
    return 0 if status == "done" else 3


if __name__ == "__main__":
    sys.exit(main())
