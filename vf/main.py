"""Runner: plans shards, executes them in up to 16 subprocesses, aggregates the observations into a
three-valued verdict, writes evidence/<id>.json and replay files, prints the interface lines."""

from __future__ import annotations

import argparse
import array
import collections
import hashlib
import importlib
import json
import os
import shutil
import subprocess
import sys
import tempfile
import time

from vf import core

NPROC = int(os.environ.get("VERIF_JOBS", str(min(16, os.cpu_count() or 4))))
# where evidence/ and replays/ are written; only set for mutant-validation runs so that they never clobber real evidence
OUT = os.environ.get("VERIF_OUT", core.ROOT)


def load_known():
    path = os.path.join(core.ROOT, "known_findings.json")
    try:
        with open(path) as f:
            data = json.load(f)
    except FileNotFoundError:
        return []
    return data.get("findings", [])


def run_shards(prop, shards, workdir):
    """Run every shard in its own interpreter (subprocess + timeout; no multiprocessing.Pool)."""
    pending = list(enumerate(shards))
    running = {}
    results = [None] * len(shards)
    env = dict(os.environ)
    env["PYTHONHASHSEED"] = "0"
    while pending or running:
        while pending and len(running) < NPROC:
            idx, shard = pending.pop(0)
            sp = os.path.join(workdir, f"s{idx}.json")
            op = os.path.join(workdir, f"o{idx}.json")
            core.dump(sp, core.jenc(shard))
            log = open(os.path.join(workdir, f"l{idx}.log"), "wb")
            p = subprocess.Popen(
                [sys.executable, "-m", "vf.shard", prop, sp, op], stdout=log, stderr=subprocess.STDOUT, env=env
            )
            running[idx] = (p, time.time(), float(shard.get("timeout_s", 600)), op, log)
        time.sleep(0.02)
        for idx in list(running):
            p, t0, tmo, op, log = running[idx]
            rc = p.poll()
            if rc is None:
                if time.time() - t0 > tmo:
                    p.kill()
                    p.wait()
                    log.close()
                    results[idx] = {"status": "watchdog", "error": f"shard exceeded {tmo}s wall clock"}
                    del running[idx]
                continue
            log.close()
            del running[idx]
            try:
                with open(op) as f:
                    res = json.load(f)
                fps = array.array("Q")
                with open(op + ".fps", "rb") as f:
                    fps.frombytes(f.read())
                res["fps"] = fps
            except Exception as e:  # shard died before writing
                tail = ""
                try:
                    with open(os.path.join(workdir, f"l{idx}.log"), "rb") as f:
                        tail = f.read()[-1500:].decode("utf-8", "replace")
                except OSError:
                    pass
                res = {"status": "crashed", "error": f"rc={rc} {e!r} {tail}"}
            results[idx] = res
    return results


def main(argv=None):
    ap = argparse.ArgumentParser(prog="check")
    ap.add_argument("prop")
    ap.add_argument("tier", nargs="?", default=None)
    ap.add_argument("--replay", default=None)
    args = ap.parse_args(argv)

    prop = args.prop.upper()
    tier = args.tier or os.environ.get("VERIF_TIER") or "quick"
    if tier not in ("quick", "thorough"):
        print(f"unknown tier {tier!r}")
        return 2
    seed = int(os.environ.get("VERIF_SEED", "0") or 0)
    t0 = time.time()
    mod = importlib.import_module(f"vf.props.{prop.lower()}")
    known = {(k["property"], k["key"]): k for k in load_known() if k.get("status") == "open"}

    workdir = tempfile.mkdtemp(prefix=f"vf_{prop}_")
    try:
        if args.replay:
            with open(args.replay) as f:
                w = json.load(f)
            shards = [{"i": 0, "kind": "replay", "tier": tier, "seed": w.get("seed", seed), "replay": w["case"], "timeout_s": 900}]
        else:
            shards = mod.plan(tier, seed)
            for i, s in enumerate(shards):
                s.setdefault("i", i)
                s["tier"] = tier
                s["seed"] = seed
        results = run_shards(prop, shards, workdir)
    finally:
        shutil.rmtree(workdir, ignore_errors=True)

    # ---- aggregate -----------------------------------------------------------------------------
    evaluations = 0
    fps = set()
    bulk_nt = 0
    classes = collections.Counter()
    monitors = collections.Counter()
    samples = []
    per_shard_samples = []
    violations = []
    nviol = 0
    viol_kinds = collections.Counter()
    inconclusive = []
    maxima = {}
    notes = {}
    exhaustive = {}
    truncated = 0
    for s, r in zip(shards, results):
        if r.get("status") != "done":
            inconclusive.append(f"shard {s.get('i')} ({s.get('kind')}): {r.get('status')}: {str(r.get("error"))[-300:].replace("\n", " | ")}")
            if r.get("status") in ("watchdog", "crashed"):
                per_shard_samples.append([])
                continue
        evaluations += r.get("evaluations", 0)
        fps.update(r.get("fps", ()))
        bulk_nt += r.get("bulk_nontrivial", 0)
        classes.update(r.get("classes", {}))
        monitors.update(r.get("monitors", {}))
        per_shard_samples.append(list(r.get("samples", [])))
        violations.extend(r.get("violations", []))
        nviol += r.get("nviol", 0)
        for kind, key, n in r.get("viol_kinds", []):
            viol_kinds[(kind, key)] += n
        for k, v in r.get("maxima", {}).items():
            maxima[k] = max(maxima.get(k, v), v)
        notes.update(r.get("notes", {}))
        for k, v in r.get("exhaustive", {}).items():
            exhaustive[k] = exhaustive.get(k, True) and v
        truncated += 1 if r.get("truncated") else 0
        for why in r.get("inconclusive", []):
            inconclusive.append(f"shard {s.get('i')} ({s.get('kind')}): {why}")

    # samples: round-robin over shards so that every workload kind is represented
    sample_kinds = set()
    for s, lst in zip(shards, per_shard_samples):
        if lst and s.get("kind") not in sample_kinds and len(samples) < 10:
            sample_kinds.add(s.get("kind"))
            samples.append(lst[0])
    distinct_nontrivial = len(fps) + bulk_nt

    if not args.replay:
        for m in getattr(mod, "REQUIRED_MONITORS", []):
            if monitors.get(m, 0) == 0:
                inconclusive.append(f"deciding monitor {m!r} was never evaluated")
        if distinct_nontrivial < getattr(mod, "MIN_NONTRIVIAL", 2):
            inconclusive.append(f"only {distinct_nontrivial} distinct non-trivial cases")

    if not args.replay and hasattr(mod, "finalize"):
        try:
            more_notes, more_inc = mod.finalize(classes, monitors, tier)
            notes.update(more_notes)
            inconclusive.extend(more_inc)
        except Exception as e:  # noqa: BLE001
            inconclusive.append(f"finalize hook failed: {e!r}")

    # ---- violations: known finding or new --------------------------------------------------------
    new_lines = []
    known_lines = []
    seen_kinds = set()
    known_keys_printed = set()
    os.makedirs(os.path.join(OUT, "replays"), exist_ok=True)
    n_known = 0
    n_new = 0
    for (kind, key), n in viol_kinds.items():
        if key is not None and (prop, key) in known:
            n_known += n
        else:
            n_new += n
    for v in violations:
        tag = (v["kind"], v["key"])
        if tag in seen_kinds:
            continue
        seen_kinds.add(tag)
        if v["key"] is not None and (prop, v["key"]) in known:
            k = known[(prop, v["key"])]
            if v["key"] in known_keys_printed:
                continue
            known_keys_printed.add(v["key"])
            known_lines.append(
                f"KNOWN-FINDING: property={prop} {v['key']}: {k.get('what', '')} "
                f"[{sum(n for (kd, ky), n in viol_kinds.items() if ky == v['key'])} occurrence(s) this run; e.g. {v['detail'][:160]}]"
            )
            continue
        h = hashlib.sha1(json.dumps(v["case"], sort_keys=True).encode()).hexdigest()[:12]
        rp = os.path.join("replays", f"{prop}-{v['kind'].replace(' ', '_').replace('/', '_')[:40]}-{h}.json")
        core.dump(
            os.path.join(OUT, rp),
            {"property": prop, "kind": v["kind"], "key": v["key"], "detail": v["detail"], "seed": seed,
             "tier": tier, "shard": v.get("shard"), "case": v["case"]},
        )
        new_lines.append((rp, v))

    wall = time.time() - t0
    verdict = "violated" if n_new else ("inconclusive" if inconclusive else "held")

    if not args.replay:
        coverage = {
            "evaluations": evaluations,
            "distinct_nontrivial": distinct_nontrivial,
            "rule": mod.RULE,
            "samples": samples or ["(no non-trivial sample recorded)"],
            "classes_observed": dict(sorted(classes.items())),
            "monitor_evaluations": dict(sorted(monitors.items())),
            "maxima": maxima,
            "shards": len(shards),
            "shards_truncated_by_time_budget": truncated,
            "verdict": verdict,
            "known_finding_occurrences": n_known,
            "violation_kinds": [{"monitor": k[0], "mechanism": k[1], "count": n} for k, n in viol_kinds.items()],
            "inconclusive_reasons": inconclusive,
        }
        if notes:
            coverage["notes"] = notes
        if exhaustive:
            coverage["exhaustive_subspaces"] = exhaustive
            if getattr(mod, "EXHAUSTIVE_WHEN", None) and all(exhaustive.get(k) for k in mod.EXHAUSTIVE_WHEN):
                coverage["exhaustive"] = True
        ev = {
            "property_id": prop,
            "tier": tier,
            "seed": seed,
            "level": mod.LEVEL,
            "coverage": coverage,
            "assumptions": list(getattr(mod, "ASSUMPTIONS", [])),
            "wall_s": round(wall, 2),
            "violations": n_new,
        }
        os.makedirs(os.path.join(OUT, "evidence"), exist_ok=True)
        core.dump(os.path.join(OUT, "evidence", f"{prop}.json"), ev)

    # ---- interface lines -------------------------------------------------------------------------
    for line in known_lines:
        print(line)
    for rp, v in new_lines:
        print(f"VIOLATION property={prop} replay={rp}")
        print(f"  monitor={v['kind']} count={viol_kinds[(v['kind'], v['key'])]} detail={v['detail'][:400]}")
    for r in inconclusive[:6]:
        print(f"INCONCLUSIVE property={prop} reason={r[:700]}")
    if len(inconclusive) > 6:
        print(f"INCONCLUSIVE property={prop} ... and {len(inconclusive) - 6} more reasons (see evidence file)")
    print(
        f"{prop} {tier} seed={seed}: verdict={verdict} evaluations={evaluations} "
        f"distinct_nontrivial={distinct_nontrivial} violations={n_new} known={n_known} wall={wall:.1f}s"
    )
    if args.replay:
        print("replay:", "violation reproduced" if nviol else "no violation on this tree")
    if n_new:
        return 1
    if inconclusive:
        return 2
    return 0


if __name__ == "__main__":
    sys.exit(main())
