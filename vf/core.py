"""Shared plumbing: case (de)serialisation, the per-shard observation context, library loading."""

from __future__ import annotations

import collections
import json
import os
import random
import sys
import time

ROOT = os.path.dirname(os.path.dirname(os.path.abspath(__file__)))
REPO = os.environ.get("VERIF_REPO", "/repo")
MASK64 = (1 << 64) - 1


# ---------------------------------------------------------------------------------------------
# JSON with bytes
# ---------------------------------------------------------------------------------------------
def jenc(o):
    if isinstance(o, (bytes, bytearray)):
        return {"$b": bytes(o).hex()}
    if isinstance(o, dict):
        return {str(k): jenc(v) for k, v in o.items()}
    if isinstance(o, (list, tuple)):
        return [jenc(v) for v in o]
    if isinstance(o, (set, frozenset)):
        return sorted(jenc(v) for v in o)
    if isinstance(o, (str, int, float, bool)) or o is None:
        return o
    return repr(o)


def jdec(o):
    if isinstance(o, dict):
        if len(o) == 1 and "$b" in o:
            return bytes.fromhex(o["$b"])
        return {k: jdec(v) for k, v in o.items()}
    if isinstance(o, list):
        return [jdec(v) for v in o]
    return o


def short(o, limit=160):
    """Human-readable compact rendering of a case for evidence samples."""
    if isinstance(o, (bytes, bytearray)):
        h = bytes(o).hex()
        return h if len(h) <= limit else f"{h[:limit]}...({len(o)} bytes)"
    if isinstance(o, dict):
        return {str(k): short(v, limit) for k, v in o.items()}
    if isinstance(o, (list, tuple)):
        if len(o) > 40:
            return [short(v, limit) for v in o[:40]] + [f"...({len(o)} items)"]
        return [short(v, limit) for v in o]
    if isinstance(o, str) and len(o) > 4 * limit:
        return o[: 4 * limit] + f"...({len(o)} chars)"
    if isinstance(o, (str, int, float, bool)) or o is None:
        return o
    return repr(o)[:limit]


# ---------------------------------------------------------------------------------------------
# library under test
# ---------------------------------------------------------------------------------------------
def load_library():
    """Import dissect.cobaltstrike from VERIF_REPO and make sure that is what we got."""
    import logging

    if REPO not in sys.path:
        sys.path.insert(0, REPO)
    import dissect.cobaltstrike.beacon as b  # noqa

    real = os.path.realpath(b.__file__)
    if not real.startswith(os.path.realpath(REPO) + os.sep):
        raise RuntimeError(f"dissect.cobaltstrike imported from {real}, expected under {REPO}")
    logging.disable(logging.CRITICAL)
    return b


class IoProxy:
    """Stand-in for the module global ``io`` of a library module: everything forwards to the real
    ``io`` except DEFAULT_BUFFER_SIZE, which is the read-buffer size under test."""

    def __init__(self, bs):
        import io as _io

        self._io = _io
        self.DEFAULT_BUFFER_SIZE = bs

    def __getattr__(self, name):
        return getattr(self._io, name)


def set_buffer_size(bs):
    import io as _io

    from dissect.cobaltstrike import artifact, beacon, guardrails, utils, xordecode

    proxy = _io if bs is None else IoProxy(bs)
    for m in (utils, beacon, guardrails, xordecode, artifact):
        m.io = proxy


# ---------------------------------------------------------------------------------------------
# observation context of one shard
# ---------------------------------------------------------------------------------------------
class Ctx:
    MAX_VIOL_KEPT = 12
    MAX_SAMPLES = 4

    def __init__(self, prop, tier, seed, shard):
        self.prop = prop
        self.tier = tier
        self.seed = seed
        self.shard = shard
        self.rng = random.Random(f"{prop}:{seed}:{shard.get('i', 0)}:{shard.get('kind', '')}")
        self.evaluations = 0
        self.fps = set()
        self.bulk_nontrivial = 0
        self.classes = collections.Counter()
        self.monitors = collections.Counter()
        self.samples = []
        self.violations = []
        self.nviol = 0
        self.viol_kinds = collections.Counter()
        self.notes = {}
        self.maxima = {}
        self.exhaustive = {}
        self.t0 = time.time()
        self.budget_s = float(shard.get("budget_s", 1e9))
        self.truncated = False
        self.inconclusive = []

    # -- time ---------------------------------------------------------------------------------
    def out_of_time(self):
        if time.time() - self.t0 > self.budget_s:
            self.truncated = True
            return True
        return False

    # -- recording ----------------------------------------------------------------------------
    def ok(self, fp=None, nontrivial=True, classes=(), case=None):
        """One generated case was executed and judged."""
        self.evaluations += 1
        if nontrivial and fp is not None:
            self.fps.add(hash(fp) & MASK64)
        for c in classes:
            self.classes[c] += 1
        if case is not None and len(self.samples) < self.MAX_SAMPLES and nontrivial:
            self.samples.append(short(case))

    def bulk(self, n, nontrivial, classes=None):
        """n distinct-by-construction cases of an enumeration were executed and judged."""
        self.evaluations += n
        self.bulk_nontrivial += nontrivial
        if classes:
            for c, k in classes.items():
                self.classes[c] += k

    def mon(self, name, n=1):
        self.monitors[name] += n

    def maximum(self, name, value):
        if value > self.maxima.get(name, float("-inf")):
            self.maxima[name] = value

    def violation(self, kind, detail, case, key=None):
        """A monitor produced a witness.  kind = which monitor; key = mechanism of a known finding
        (set only by a counterfactual classifier), None otherwise."""
        self.nviol += 1
        self.viol_kinds[(kind, key)] += 1
        dbg = os.environ.get("VERIF_DEBUG_VIOL")
        if dbg:  # triage aid: one line per violation
            with open(dbg, "a") as f:
                f.write(f"{kind}\t{key}\t{str(detail)[:300]}\n")
        kept_same = sum(1 for v in self.violations if v["kind"] == kind and v["key"] == key)
        if kept_same < 2 and len(self.violations) < self.MAX_VIOL_KEPT:
            self.violations.append(
                {"kind": kind, "key": key, "detail": str(detail)[:2000], "case": jenc(case), "shard": jenc(self.shard)}
            )

    def result(self):
        return {
            "evaluations": self.evaluations,
            "bulk_nontrivial": self.bulk_nontrivial,
            "classes": dict(self.classes),
            "monitors": dict(self.monitors),
            "samples": self.samples,
            "violations": self.violations,
            "nviol": self.nviol,
            "viol_kinds": [[k[0], k[1], n] for k, n in self.viol_kinds.items()],
            "notes": self.notes,
            "maxima": self.maxima,
            "exhaustive": self.exhaustive,
            "truncated": self.truncated,
            "inconclusive": self.inconclusive[:5],
            "wall_s": round(time.time() - self.t0, 3),
        }


def dump(path, obj):
    with open(path, "w") as f:
        json.dump(obj, f)
