"""C09 - the XorEncoded file view is a faithful read-only file over the decoded bytes.

Monitors: (1) history checker - the same seek/read/tell history is applied to XorEncodedFile and to
io.BytesIO(plaintext) and compared after every operation; (2) icontract post-condition on the real
XorEncodedFile.read (position advances by len(result)); (3) detection oracle against the reference XorEncoder."""

from __future__ import annotations

import io
import os
import tempfile

from vf import contracts, core, repotests
from vf.ref import payload as P

ID = "C09"
LEVEL = "exploration"
RULE = (
    "history cases are (plaintext, nonce, stub, op sequence) with 1..60 ops from seek SET/CUR/END (in range, at EOF, "
    "beyond EOF), read(0), read(1..9), read(large), read(-1), read(), tell; plaintext lengths cover every length 0..40 "
    "and random lengths (not multiples of 4 included). Detection cases are stages (synthetic PE with 0..900 prepend "
    "bytes) encoded with/without the end-of-stub marker and with a right/wrong size field, plus non-XorEncoded inputs. "
    "Non-trivial: history with at least one read that returns data after a seek or an unaligned read; every detection "
    "case. Distinct = distinct (encoded bytes, op sequence)."
)
ASSUMPTIONS = [
    "seek() must return the new position in the decoded bytes, as any file object does",
    "positions before the start of the decoded region (negative logical offsets) are not exercised",
    "stubs contain additional ff ff ff sequences (e.g. backward calls 'e8 xx ff ff ff') only in stages that carry a correct size field; with the marker alone the true end of the stub is ambiguous and not judged",
]
REQUIRED_MONITORS = ["history.model", "contract.read.position", "detect.offset", "detect.reject"]


def apply_ops(xf, model, ops):
    """Returns None or (monitor, message, op index)."""
    for i, op in enumerate(ops):
        kind = op[0]
        if kind == "seek":
            _, off, whence = op
            before = model.tell()
            target = off if whence == 0 else before + off if whence == 1 else len(model.getbuffer()) + off
            if target < 0:
                # before the start of the decoded bytes: a file either refuses (ValueError / OSError, position unchanged) or
                # - io.BytesIO for relative seeks - ends up at position 0; never at a negative position, never in the stub
                try:
                    got_pos = xf.seek(off, whence)
                except (ValueError, OSError):
                    got_pos = None
                if got_pos is None:
                    model.seek(before)
                    if xf.tell() != before:
                        return "history.model", f"op#{i} seek({off}, {whence}) to a position before the start was refused but moved the position to {xf.tell()}", i
                elif got_pos == 0 and whence != 0:
                    model.seek(0)
                else:
                    return "history.model", f"op#{i} seek({off}, {whence}) to a position before the start of the decoded bytes returned {got_pos}", i
                continue
            want_pos = model.seek(off, whence)
            got_pos = xf.seek(off, whence)
            if got_pos != want_pos:
                return "history.model", f"op#{i} seek({off}, {whence}) returned {got_pos}, a file over the decoded bytes returns {want_pos}", i
        elif kind == "read":
            n = op[1]
            want = model.read() if n is None else model.read(n)
            got = xf.read() if n is None else xf.read(n)
            if got != want:
                return "history.model", f"op#{i} read({n}) at {model.tell() - len(want)}: got {core.short(got, 48)} want {core.short(want, 48)}", i
        if xf.tell() != model.tell():
            return "history.model", f"op#{i} {op}: tell()={xf.tell()} but {model.tell()} bytes of plaintext position expected", i
        br = contracts.take()
        if br:
            return "contract.read.position", f"op#{i} {op}: {br[0][1]}", i
    return None


def check_case(case, ctx):
    if case.get("op") == "repo_test":
        repotests.run(ctx, ['tests/test_xordecode.py', 'tests/test_beacon.py', 'tests/test_pe.py'], [contracts.install_xordecode], {"contract.read.position": "XorEncodedFile.read.position"})
        return
    from dissect.cobaltstrike import xordecode

    contracts.install_xordecode()
    contracts.take()
    if case["op"] == "history":
        plain, nonce, stub = case["plain"], case["nonce"], case["stub"]
        # the view is opened with an explicit nonce offset: the size field need not describe the region and bytes may follow it
        enc, off = P.xorencode(plain, nonce, stub=stub, marker=case.get("marker", True), size_ok=case.get("size_ok", True),
                               trailing=case.get("trailing", b""))
        if case.get("trailing"):
            plain = plain + P_decode_trailing(case["trailing"], enc, off, len(plain))
        ctx.mon("history.model")
        before = contracts.evaluations["XorEncodedFile.read.position"]
        tmp = None
        try:
            if case.get("realfile"):
                fd, tmp = tempfile.mkstemp(prefix="vf_c09_")
                os.write(fd, enc)
                os.close(fd)
                fh = open(tmp, "rb")
            elif case.get("mmap"):
                import mmap

                fh = mmap.mmap(-1, len(enc))
                fh.write(enc)
                fh.seek(0)
            else:
                fh = io.BytesIO(enc)
            try:
                xf = xordecode.XorEncodedFile(fh, nonce_offset=off)
                xf.seek(0)
                r = apply_ops(xf, io.BytesIO(plain), [tuple(o) for o in case["ops"]])
            except Exception as e:  # noqa: BLE001
                r = ("history.exception", f"{type(e).__name__}: {e}", -1)
            finally:
                fh.close()
        finally:
            if tmp:
                os.unlink(tmp)
        ctx.mon("contract.read.position", contracts.evaluations["XorEncodedFile.read.position"] - before)
        if r:
            ctx.violation(r[0], f"plaintext {len(plain)} bytes, nonce {nonce.hex()}, stub {len(stub)}: {r[1]}", case)
            return
        ops = case["ops"]
        nt = any(o[0] == "read" and (o[1] is None or o[1] != 0) for o in ops) and len(plain) > 0
        ctx.ok(fp=(enc, repr(ops)), nontrivial=nt, case=case, classes=(
            f"len%4={len(plain) % 4}", f"sizefield:{'ok' if case.get('size_ok', True) and not case.get('trailing') else 'inconsistent'}", "file:real" if case.get("realfile") else "file:mmap" if case.get("mmap") else "file:bytesio",
            *{f"op:{o[0]}{'' if o[0] != 'seek' else o[2]}" for o in ops}))
    elif case["op"] == "detect":
        plain, nonce, stub = case["plain"], case["nonce"], case["stub"]
        enc, off = P.xorencode(plain, nonce, stub=stub, marker=case["marker"], size_ok=case["size_ok"],
                               trailing=case["trailing"])
        detectable = case["marker"] or (case["size_ok"] and not case["trailing"])
        fh = io.BytesIO(enc)
        tmp_path = None
        if case.get("via") == "mmap":
            import mmap

            fh = mmap.mmap(-1, len(enc))
            fh.write(enc)
            fh.seek(0)
        if case.get("fhpos") is not None:
            # the file object has been used before (hashed, scanned, decoded once): detection must not depend on its position
            fh.seek(min(case["fhpos"], len(enc)) if case["fhpos"] >= 0 else len(enc))
        try:
            # maxrange bounds the search for the nonce offset only ("how far into the file ... nonce_offset candidates"):
            # any value that covers the stub must give the same result as the default, whatever the image's e_lfanew is
            kw = {} if not case.get("maxrange") else {"maxrange": off + case["maxrange"]}
            if case.get("via") == "path":
                # the path constructor is the same detection on the file's bytes, search range included
                fd, tmp_path = tempfile.mkstemp(prefix="vf_c09_")
                os.write(fd, enc)
                os.close(fd)
                try:
                    xf = xordecode.XorEncodedFile.from_path(tmp_path, **kw)
                finally:
                    os.unlink(tmp_path)
            else:
                xf = xordecode.XorEncodedFile.from_file(fh, **kw)
        except ValueError:
            xf = None
        except Exception as e:  # noqa: BLE001
            ctx.violation("detect.exception", f"{type(e).__name__}: {e}", case)
            return
        if detectable:
            ctx.mon("detect.offset")
            if xf is None:
                ctx.violation("detect.offset", f"stage not detected (marker={case['marker']} size_ok={case['size_ok']} stub={len(stub)} prepend={case['prepend']})", case)
                return
            if xf.nonce_offset != off:
                # known finding: a stage that only its end-of-stub marker locates (size field does not confirm it) and whose
                # stub holds an earlier ff ff ff - the earlier candidate decodes to the same image further in, passes the
                # MZ test and wins.  Attributed by mechanism: the reported offset is one of those earlier marker positions.
                size_confirmed = case["size_ok"] and not case["trailing"]
                earlier = {i + 3 for i in range(len(stub) - 2) if stub[i : i + 3] == b"\xff\xff\xff" and i + 3 < off}
                key = "xordecode-earlier-marker-candidate" if (case["marker"] and not size_confirmed and xf.nonce_offset in earlier) else None
                ctx.violation("detect.offset", f"nonce_offset {xf.nonce_offset}, encoded region starts at {off}", case, key=key)
                return
            xf.seek(0)
            dec = xf.read()
            want = plain + P_decode_trailing(case["trailing"], enc, off, len(plain))
            if dec != want:
                ctx.violation("detect.decode", f"decoded view differs from the plaintext at byte {next((i for i, (a, b) in enumerate(zip(dec, want)) if a != b), min(len(dec), len(want)))} (lengths {len(dec)}/{len(want)})", case)
                return
        else:
            ctx.mon("detect.reject")
            if xf is not None:
                ctx.violation("detect.reject", f"input without marker and without size relation accepted at nonce_offset {xf.nonce_offset}", case)
                return
        ctx.ok(fp=enc, case={k: v for k, v in case.items() if k != "plain"} | {"plain_len": len(plain)}, classes=(
            f"detect:marker={case['marker']},size={case['size_ok'] and not case['trailing']}", f"prepend:{min(case['prepend'] // 300, 3)}",
            "stub:decoy-markers" if stub.count(b"\xff\xff\xff") else "stub:clean", f"maxrange:{'default' if not case.get('maxrange') else 'stub+' + str(case['maxrange'])}", f"via:{case.get('via') or 'bytesio'}"))
    elif case["op"] == "shortfile":
        # the direct constructor on a file that ends before or inside the nonce/size field: an empty decoded file
        from dissect.cobaltstrike import pe

        ctx.mon("history.model")
        data, off = case["data"], case["nonce_offset"]
        for fileobj in ("bytesio",):
            xf = xordecode.XorEncodedFile(io.BytesIO(data), nonce_offset=off)
            problems = []
            try:
                if xf.tell() != 0:
                    problems.append(f"tell() is {xf.tell()} right after construction")
                if xf.read() != b"" or xf.read(4) != b"":
                    problems.append("read() returns data")
                pos = xf.tell()
                if xf.seek(pos) != pos:
                    problems.append("seek(tell()) does not return tell()")
                if pe.find_mz_offset(xf, start_offset=None) is not None:
                    problems.append("find_mz_offset found a header in an empty decoded file")
            except Exception as e:  # noqa: BLE001
                problems.append(f"{type(e).__name__}: {e}")
            if problems:
                ctx.violation("history.model", f"file of {len(data)} bytes opened with nonce_offset={off}: " + "; ".join(problems), case)
                return
        ctx.ok(fp=("short", data, off), nontrivial=True, case=case, classes=("shortfile",))
    elif case["op"] == "plainfile":
        ctx.mon("detect.reject")
        try:
            xf = xordecode.XorEncodedFile.from_file(io.BytesIO(case["data"]))
        except ValueError:
            ctx.ok(fp=case["data"], case={"op": "plainfile", "len": len(case["data"]), "what": case["what"]}, classes=(f"plain:{case['what']}",))
            return
        except Exception as e:  # noqa: BLE001
            ctx.violation("detect.exception", f"{type(e).__name__}: {e}", case)
            return
        ctx.violation("detect.reject", f"non-XorEncoded input ({case['what']}) accepted at nonce_offset {xf.nonce_offset}", case)
    else:
        raise ValueError(case["op"])


def P_decode_trailing(trailing, enc, off, plen):
    """Bytes after the encoded region decode by the same rolling rule (the view has no notion of an end)."""
    if not trailing:
        return b""
    start = off + 8 + plen
    out = bytearray()
    for i in range(start, len(enc)):
        j = i - 4
        prev = enc[j] if j >= off + 8 else enc[off + (j - (off + 4))]
        out.append(enc[i] ^ prev)
    return bytes(out)


# ---- generators ----------------------------------------------------------------------------------------
def gen_ops(rng, plen, nops):
    ops = []
    pos = 0
    for _ in range(nops):
        r = rng.random()
        if r < 0.3:
            w = rng.choice([0, 0, 1, 2])
            if w == 0:
                t = rng.choice([0, plen, max(plen - 1, 0), rng.randrange(0, plen + 1), rng.randrange(0, plen + 1), plen + rng.randrange(1, 9), -1, -rng.randrange(1, 60)])
                ops.append(("seek", t, 0))
                pos = t if t >= 0 else pos
            elif w == 1:
                t = rng.choice([rng.randrange(0, plen + 1), rng.randrange(0, plen + 1), plen + rng.randrange(1, 5), pos, -1, -rng.randrange(1, 5000)])
                ops.append(("seek", t - pos, 1))
                pos = max(t, 0)
            else:
                t = rng.choice([plen, rng.randrange(0, plen + 1), plen + rng.randrange(1, 5), -1, -rng.randrange(1, 5000)])
                ops.append(("seek", t - plen, 2))
                pos = max(t, 0)
        elif r < 0.85:
            n = rng.choice([0, 1, 2, 3, 4, 5, 6, 7, 8, 9, 1, 3, rng.randrange(1, 40), plen + 5, 8192, -1, None])
            ops.append(("read", n))
            if n is None or n < 0:
                pos = max(pos, plen)
            else:
                pos = min(max(pos, 0) + n, max(plen, pos))
        else:
            ops.append(("tell",))
    return ops


def inrange_ops(ops, total):
    """the sub-history whose seeks stay within [0, total] (a memory mapping refuses positions beyond its end, which is
    the mapping's behaviour, not the view's)"""
    model = io.BytesIO(bytes(total))
    out = []
    for op in ops:
        if op[0] == "seek":
            _, off, whence = op
            target = off if whence == 0 else model.tell() + off if whence == 1 else total + off
            if not 0 <= target <= total:
                continue
            model.seek(off, whence)
        elif op[0] == "read":
            model.read() if op[1] is None else model.read(op[1])
        out.append(op)
    return out


def plan(tier, seed):
    q = tier == "quick"
    shards = []
    for i in range(10):
        shards.append({"kind": "history", "n": 500 if q else 40000, "part": i})
    for i in range(5):
        shards.append({"kind": "detect", "n": 40 if q else 1500, "part": i})
    shards.append({"kind": "plain", "n": 40 if q else 2000})
    shards.append({"kind": "repo_tests"})
    for s in shards:
        s["budget_s"] = 50 if q else 1500
        s["timeout_s"] = 300 if q else 3600
    return shards


def run_shard(shard, ctx):
    if shard["kind"] == "repo_tests":
        repotests.run(ctx, ['tests/test_xordecode.py', 'tests/test_beacon.py', 'tests/test_pe.py'], [contracts.install_xordecode], {"contract.read.position": "XorEncodedFile.read.position"})
        return
    rng = ctx.rng
    kind = shard["kind"]
    if kind == "history":
        for i in range(shard["n"]):
            if ctx.out_of_time():
                break
            if shard["part"] == 0 and i <= 40:
                plen = i
            else:
                plen = rng.choice([rng.randrange(0, 41), rng.randrange(0, 300), rng.randrange(0, 20000)])
            plain = rng.randbytes(plen)
            nonce = rng.choice([rng.randbytes(4), rng.randbytes(4), b"\0\0\0\0", b"\xff\xff\xff\xff"])
            stub = P.filler(rng, rng.choice([0, 0, 1, 57, rng.randrange(0, 1001)]))
            ops = gen_ops(rng, plen, rng.randrange(1, 61))
            trailing = P.filler(rng, rng.randrange(1, 30)) if rng.random() < 0.15 else b""
            ops = gen_ops(rng, plen + len(trailing), len(ops)) if trailing else ops
            kind_r = rng.random()
            if 0.03 <= kind_r < 0.08:
                ops = inrange_ops(ops, plen + len(trailing))
            check_case({"op": "history", "plain": plain, "nonce": nonce, "stub": stub, "ops": ops, "size_ok": rng.random() < 0.7, "trailing": trailing,
                        "marker": rng.random() < 0.5, "realfile": kind_r < 0.03, "mmap": 0.03 <= kind_r < 0.08}, ctx)
    elif kind == "detect":
        for i in range(shard["n"]):
            if ctx.out_of_time():
                break
            arch = rng.choice(["x86", "x64"])
            img, _ = P.build_pe(rng, arch=arch, lfanew=rng.choice([64, 0x80, 0xF8, rng.randrange(64, 1000)]), nsec=rng.randrange(1, 5))
            prepend = rng.choice([0, 0, 1, 9, rng.randrange(0, 901), 900])
            plain = (b"\x90" * prepend if rng.random() < 0.5 else P.filler(rng, prepend)) + img
            cut = rng.choice([0, 0, 1, 2, 3])
            if cut:
                plain = plain[: len(plain) - cut]
            marker = rng.random() < 0.6
            size_ok = rng.random() < 0.6
            trailing = b"" if rng.random() < 0.7 else P.filler(rng, rng.randrange(1, 40))
            stub = P.filler(rng, rng.choice([0, 1, 57, rng.randrange(0, 1021 - (3 if marker else 0))]))
            if rng.random() < 0.25:
                # nonce offsets at the very end of the documented search range (first 1024 bytes)
                stub = P.filler(rng, rng.choice([1012, 1013, 1014, 1015, 1016, 1017] if marker else [1016, 1017, 1018, 1019, 1020, 1021, 1022, 1023]))
            if size_ok and not trailing and rng.random() < 0.4 and len(stub) >= 4:
                # decoy end-of-stub markers inside the stub: the offset confirmed by marker AND size field must still win
                b = bytearray(stub)
                for _ in range(rng.randrange(1, 4)):
                    pos = rng.randrange(0, len(b) - 2)
                    b[pos : pos + 3] = b"\xff\xff\xff"
                if marker and rng.random() < 0.3:
                    b[-1:] = b"\xff"  # stub ending in ff: the marker region becomes ff ff ff ff
                if not marker and b[-3:] == b"\xff\xff\xff":
                    b[-1] = 0x41  # without a marker the stub must not end in one by accident
                stub = bytes(b)
            elif marker and rng.random() < 0.3 and len(stub) >= 8:
                # stage located by its marker only, stub with an inner ff ff ff (e.g. a backward call e8 xx ff ff ff)
                b = bytearray(stub)
                pos = rng.randrange(0, len(b) - 5)
                b[pos : pos + 3] = b"\xff\xff\xff"
                stub = bytes(b)
            mr = rng.choice([0, 0, 1, 8, 100, 2000]) if (marker or (size_ok and not trailing)) else 0
            if mr and rng.random() < 0.4:
                # a stub longer than the default search range, found because the caller widens the range
                stub = P.filler(rng, rng.randrange(1024, 3000))
            nonce = rng.randbytes(4)
            if marker and rng.random() < 0.45:
                # the run of ff bytes of the marker continues into the nonce
                nonce = rng.choice([b"\xff" + rng.randbytes(3), b"\xff\xff" + rng.randbytes(2), b"\xff\xff\xff\xff", rng.randbytes(3) + b"\xff"])
            check_case({"op": "detect", "plain": plain, "nonce": nonce, "stub": stub, "marker": marker,
                        "size_ok": size_ok, "trailing": trailing, "prepend": prepend,
                        "maxrange": mr,
                        "via": rng.choice([None, None, None, None, "mmap", "path"]),
                        "fhpos": rng.choice([None, None, -1, 1, len(stub) + 3, len(stub) + 11, rng.randrange(0, 5000)])}, ctx)
    elif kind == "plain":
        for off in (0, 1, 5, 33):
            for ln in range(0, off + 9):
                check_case({"op": "shortfile", "data": rng.randbytes(ln), "nonce_offset": off}, ctx)
        for i in range(shard["n"]):
            if ctx.out_of_time():
                break
            what = rng.choice(["pe", "random", "text", "zero", "short"])
            if what == "pe":
                data = P.build_pe(rng, arch=rng.choice(["x86", "x64"]))[0]
            elif what == "random":
                data = P.filler(rng, rng.randrange(0, 5000))
            elif what == "text":
                data = P.filler(rng, rng.randrange(0, 5000), "text")
            elif what == "zero":
                data = bytes(rng.randrange(0, 3000))
            else:
                data = rng.randbytes(rng.randrange(0, 12))
            check_case({"op": "plainfile", "data": data, "what": what}, ctx)
    else:
        raise ValueError(kind)


LEVEL_TEXT = (
    "Exploration with a history checker: thousands (thorough: hundreds of thousands) of random seek/read/tell histories "
    "are applied in lock-step to the real XorEncodedFile (over BytesIO and real files) and to io.BytesIO(plaintext); "
    "bytes returned and the reported position are compared after every operation, and an icontract post-condition on "
    "the real read() observes every call. Detection is checked against a reference XorEncoder over marker/size-field "
    "combinations, stub lengths up to the search range and prepend lengths 0..900."
)
LEVEL_NOTE = "Held on the histories explored; trusted base: io.BytesIO as the model of a read-only file, the reference XorEncoder."
TECHNIQUE = "history recorder + executable model (io.BytesIO) compared after every operation; icontract post-condition on read()"
