"""C05 - packet encryption round-trips and is authenticated before decryption.

Monitors: reference CBC/HMAC written out over the block primitive and hashlib (vf/ref/crypto.py);
fault enumeration of every single-bit / truncation fault on small packets with an exception-type
monitor and a spy that counts decrypt operations before the rejection; framing checker."""

from __future__ import annotations

import struct

from vf import contracts, core, repotests
from vf.ref import crypto as R

ID = "C05"
LEVEL = "fault_enumeration"
RULE = (
    "round-trip cases are (plaintext, AES key, HMAC key, IV): every plaintext length 0..80 (each residue mod 16 several "
    "times) plus random lengths up to 64 KB, random and default IV. For every packet of at most 64 plaintext bytes the "
    "fault set is enumerated: each single-bit flip of ciphertext and of signature, each truncation length of both, one "
    "appended byte, each single-bit flip of the HMAC key, HMAC key None / empty - every fault is distinct by "
    "construction and non-trivial. Framing cases are sequences of 1..6 packets. Distinct = distinct (packet, fault)."
)
ASSUMPTIONS = [
    "timing side channels of the signature comparison are not observed",
    "decrypt spy: c2.decrypt_data and the AES factory used by c2 are the only routes to plaintext",
]
REQUIRED_MONITORS = ["roundtrip.reference", "fault.rejected", "fault.no_decrypt", "framing", "c2.pad.post"]
EXHAUSTIVE_WHEN = ["single_fault_set_per_packet"]


class Spy:
    def __init__(self, c2):
        self.c2 = c2
        self.decrypts = 0
        self.real_dd = c2.decrypt_data
        self.real_aes = c2.AES
        spy = self

        def dd(*a, **kw):
            spy.decrypts += 1
            return spy.real_dd(*a, **kw)

        class AESProxy:
            def __getattr__(self, name):
                return getattr(spy.real_aes, name)

            def new(self, *a, **kw):
                spy.decrypts += 1
                return spy.real_aes.new(*a, **kw)

        c2.decrypt_data = dd
        c2.AES = AESProxy()

    def close(self):
        self.c2.decrypt_data = self.real_dd
        self.c2.AES = self.real_aes


def _roundtrip(case, ctx, c2):
    pt, ak, hk, iv = case["pt"], case["aes"], case["hmac"], case["iv"]
    ctx.mon("roundtrip.reference")
    kw = {} if iv is None else {"iv": iv}
    eff_iv = b"abcdefghijklmnop" if iv is None else iv
    try:
        pkt = c2.encrypt_packet(pt, ak, hk, **kw)
        back = c2.decrypt_packet(pkt, ak, hk, **kw)
    except Exception as e:  # noqa: BLE001
        ctx.violation("roundtrip.exception", f"{type(e).__name__}: {e}", case)
        return None
    rct, rsig = R.ref_encrypt_packet(pt, ak, hk, eff_iv)
    if bytes(pkt.ciphertext) != rct:
        ctx.violation("roundtrip.reference", f"ciphertext differs from AES-128-CBC(iv, pt||'A'*(16-len%16)) for len={len(pt)}", case)
        return None
    if bytes(pkt.signature) != rsig:
        ctx.violation("roundtrip.reference", "signature is not HMAC-SHA256(ciphertext)[:16]", case)
        return None
    npad = len(back) - len(pt)
    if not (1 <= npad <= 16 and back[: len(pt)] == pt and back[len(pt) :] == b"A" * npad):
        ctx.violation("roundtrip.padding", f"decrypt(encrypt(pt)) is not pt + 1..16 'A' (len {len(pt)} -> {len(back)})", case)
        return None
    if R.cbc_decrypt(ak, eff_iv, rct) != back:
        ctx.violation("roundtrip.reference", "decrypt differs from reference CBC decryption", case)
        return None
    # verify=False still decrypts, whatever the signature
    try:
        nv = c2.decrypt_packet(c2.EncryptedPacket(pkt.ciphertext, bytes(16)), ak, None, verify=False, **kw)
    except Exception as e:  # noqa: BLE001
        ctx.violation("roundtrip.noverify", f"verify=False raised {type(e).__name__}: {e}", case)
        return None
    if nv != back:
        ctx.violation("roundtrip.noverify", "verify=False returns different plaintext", case)
        return None
    return pkt


def _faults(pkt, hk):
    ct, sig = bytes(pkt.ciphertext), bytes(pkt.signature)
    for i in range(len(ct) * 8):
        b = bytearray(ct)
        b[i // 8] ^= 1 << (i % 8)
        yield ("ct-bit", i), bytes(b), sig, hk
    for i in range(len(sig) * 8):
        b = bytearray(sig)
        b[i // 8] ^= 1 << (i % 8)
        yield ("sig-bit", i), ct, bytes(b), hk
    for k in range(len(ct)):
        yield ("ct-trunc", k), ct[:k], sig, hk
    for k in range(len(sig)):
        yield ("sig-trunc", k), ct, sig[:k], hk
    yield ("ct-extend", 1), ct + b"\0", sig, hk
    yield ("sig-extend", 1), ct, sig + b"\0", hk
    yield ("swap", 0), sig, ct, hk
    for i in range(len(hk) * 8):
        b = bytearray(hk)
        b[i // 8] ^= 1 << (i % 8)
        yield ("key-bit", i), ct, sig, bytes(b)
    yield ("key-none", 0), ct, sig, None
    yield ("key-empty", 0), ct, sig, b""
    # two faults at once: no key to verify with AND a shortened / absent signature (nothing is left to compare: still no plaintext)
    for k in range(len(sig)):
        yield ("key-none+sig-trunc", k), ct, sig[:k], None
        yield ("key-empty+sig-trunc", k), ct, sig[:k], b""
    yield ("key-none+ct-bit", 0), bytes([ct[0] ^ 1]) + ct[1:], b"", None


def check_case(case, ctx):
    if case.get("op") == "repo_test":
        repotests.run(ctx, ['tests/test_c2.py'], [contracts.install_c2], {"c2.pad.post": "c2.pad.post"})
        return
    from dissect.cobaltstrike import c2

    contracts.install_c2()
    contracts.take()
    op = case["op"]
    before = contracts.evaluations["c2.pad.post"]
    try:
        if op == "packet":
            pkt = _roundtrip(case, ctx, c2)
            if pkt is None:
                return
            nf = 0
            if case.get("faults"):
                kw = {} if case["iv"] is None else {"iv": case["iv"]}
                spy = Spy(c2)
                try:
                    for fid, ct, sig, hk in _faults(pkt, case["hmac"]):
                        spy.decrypts = 0
                        ctx.monitors["fault.rejected"] += 1
                        try:
                            out = c2.decrypt_packet(c2.EncryptedPacket(ct, sig), case["aes"], hk, **kw)
                        except ValueError:
                            out = None
                        except Exception as e:  # noqa: BLE001
                            ctx.violation("fault.exception", f"fault {fid}: {type(e).__name__}: {e} instead of ValueError", {**case, "fault": list(fid)})
                            return
                        else:
                            ctx.violation("fault.rejected", f"fault {fid} accepted, returned {len(out)} bytes of plaintext", {**case, "fault": list(fid)})
                            return
                        ctx.monitors["fault.no_decrypt"] += 1
                        if spy.decrypts:
                            ctx.violation("fault.no_decrypt", f"fault {fid}: {spy.decrypts} decrypt operation(s) ran before the rejection", {**case, "fault": list(fid)})
                            return
                        nf += 1
                finally:
                    spy.close()
                ctx.exhaustive["single_fault_set_per_packet"] = True
                ctx.bulk(nf, nf, {"faults": nf})
            br = contracts.take()
            if br:
                ctx.violation(br[0][0], br[0][1], case)
                return
            ctx.ok(fp=(case["pt"], case["aes"], case["hmac"], case["iv"]), case=case,
                   classes=(f"len%16={len(case['pt']) % 16}", "iv:default" if case["iv"] is None else "iv:random"))
        elif op == "framing":
            ctx.mon("framing")
            pkts = [(c, s) for c, s in case["packets"]]
            objs = [c2.EncryptedPacket(c, s) for c, s in pkts]
            stream = b"".join(o.dumps() for o in objs)
            if stream != b"".join(R.frame(c, s) for c, s in pkts):
                ctx.violation("framing", "EncryptedPacket.dumps is not u32be(len(ct+sig)) || ct || sig", case)
                return
            got = [(bytes(p.ciphertext), bytes(p.signature)) for p in c2.ClientC2Data(output=stream).iter_encrypted_packets()]
            if got != pkts:
                ctx.violation("framing", f"client stream of {len(pkts)} packets split into {len(got)}: {core.short(got)}", case)
                return
            c, s = pkts[0]
            got = [(bytes(p.ciphertext), bytes(p.signature)) for p in c2.ServerC2Data(output=c + s).iter_encrypted_packets()]
            if got != [(c, s)]:
                ctx.violation("framing", "server data not split into ciphertext || 16-byte signature", case)
                return
            if list(c2.ClientC2Data(output=b"").iter_encrypted_packets()) or list(c2.ServerC2Data(output=None).iter_encrypted_packets()):
                ctx.violation("framing", "empty stream yields packets", case)
                return
            ctx.ok(fp=stream, case=case, classes=(f"framing:n={len(pkts)}",))
        elif op == "keys_iv":
            # session keys requested several times for the same random bytes with different IVs: every key object carries the IV
            # it was asked for, and a packet encrypted with it is CBC under that IV
            ctx.mon("roundtrip.reference")
            for iv in case["ivs"]:
                keys = c2.BeaconKeys.from_aes_rand(case["aes_rand"]) if iv is None else c2.BeaconKeys.from_aes_rand(case["aes_rand"], iv=iv)
                want_iv = b"abcdefghijklmnop" if iv is None else iv
                pkt = c2.encrypt_packet(case["pt"], **keys._asdict())
                ref_ct = R.cbc_encrypt(keys.aes_key, want_iv, R.cs_pad(case["pt"]))
                back = c2.decrypt_packet(pkt, keys.aes_key, keys.hmac_key, iv=want_iv)
                if keys.iv != want_iv or not back.startswith(case["pt"]) or bytes(pkt.ciphertext) != ref_ct:
                    ctx.violation("roundtrip.reference", f"BeaconKeys.from_aes_rand(..., iv={None if iv is None else iv.hex()}) after other IVs for the same session: key object carries IV {keys.iv.hex()}, "
                                  f"packet decrypts under the requested IV: {back.startswith(case['pt'])}", case)
                    return
            ctx.ok(fp=("keys_iv", case["aes_rand"], tuple(case["ivs"])), case=case, classes=("keys:iv-history",))
        else:
            raise ValueError(op)
    finally:
        ctx.mon("c2.pad.post", contracts.evaluations["c2.pad.post"] - before)


def plan(tier, seed):
    q = tier == "quick"
    shards = []
    for i in range(14):
        shards.append({"kind": "packets", "n": 40 if q else 900, "nbig": 30 if q else 400, "part": i})
    shards.append({"kind": "framing", "n": 600 if q else 20000})
    shards.append({"kind": "framing", "n": 600 if q else 20000})
    shards.append({"kind": "repo_tests"})
    for s in shards:
        s["budget_s"] = 50 if q else 1500
        s["timeout_s"] = 300 if q else 3600
    return shards


def run_shard(shard, ctx):
    if shard["kind"] == "repo_tests":
        repotests.run(ctx, ['tests/test_c2.py'], [contracts.install_c2], {"c2.pad.post": "c2.pad.post"})
        return
    rng = ctx.rng
    if shard["kind"] == "packets":
        for i in range(shard["n"]):
            if ctx.out_of_time():
                break
            ln = (i + 6 * shard["part"]) % 65 if i < 65 else rng.randrange(0, 65)
            check_case({"op": "packet", "pt": rng.randbytes(ln), "aes": rng.randbytes(16), "hmac": rng.randbytes(16),
                        "iv": None if rng.random() < 0.4 else rng.randbytes(16), "faults": True}, ctx)
        for i in range(shard["nbig"]):
            if ctx.out_of_time():
                break
            ln = rng.choice([rng.randrange(0, 81), rng.randrange(0, 81), rng.randrange(0, 5000), rng.randrange(0, 65536)])
            if rng.random() < 0.03 or i == 0:
                # downloads and screenshots: around and beyond 64 KiB, where a slice-wise cipher would cut
                ln = rng.choice([65519, 65520, 65535, 65536, 65537, 0x1FFF0, 0x20005, 0x30010])
            check_case({"op": "packet", "pt": rng.randbytes(ln), "aes": rng.randbytes(16), "hmac": rng.randbytes(16),
                        "iv": None if rng.random() < 0.4 else rng.randbytes(16), "faults": False}, ctx)
    else:
        for i in range(shard["n"]):
            if ctx.out_of_time():
                break
            pk = []
            npk = rng.randrange(1, 7)
            if i in (0, 1, 2):
                npk = (1000, 1500, 6000)[i]  # a long-running task's results queued up: thousands of small packets in one body
            for _ in range(npk):
                pk.append((rng.randbytes(16 * rng.choice([1, 1, 2, 3, 5, 40] if npk < 100 else [1])), rng.randbytes(16)))
            check_case({"op": "framing", "packets": pk}, ctx)
            if i < 40:
                check_case({"op": "keys_iv", "aes_rand": rng.randbytes(16), "ivs": [rng.choice([None, rng.randbytes(16)]) for _ in range(4)], "pt": rng.randbytes(rng.randrange(1, 60))}, ctx)


LEVEL_TEXT = (
    "Fault enumeration: for every generated packet of up to 64 plaintext bytes, every single-bit flip of ciphertext, "
    "signature and HMAC key, every truncation length of ciphertext and signature, one-byte extensions and a missing "
    "HMAC key are injected, and a monitor observes that each is rejected with ValueError before any decrypt operation "
    "runs (spy on decrypt_data / the AES factory). Round trips are checked against CBC written out over the raw AES "
    "block function and an ipad/opad HMAC for all lengths 0..80 and random ones up to 64 KB; framing against an own framer."
)
LEVEL_NOTE = "Complete for single faults on the packets generated, sampled over keys/IVs/plaintexts; trusted base: AES block function, hashlib.sha256."
TECHNIQUE = "fault injection (enumerated single-bit/truncation faults) with exception-type monitor and decrypt-call spy; reference-model monitor for CBC/HMAC/framing; icontract post-condition on pad()"
