"""C03 - structured settings decode Cobalt Strike's binary encodings exactly.

Monitor: independent encoders produce the binary value of each structured setting from a model; the model
is compared with what BeaconConfig(block).settings / the convenience properties report."""

from __future__ import annotations

import hashlib
import itertools
import struct

from vf import core
from vf.ref import tables, tlv

ID = "C03"
LEVEL = "exploration"
RULE = (
    "a case is a configuration block holding several structured settings produced by independent encoders from a "
    "model: transform programs for http-get/http-post client (all opcodes except the stage-only STRREP; BUILD 0/1; "
    "zero-length and binary arguments; 0-terminated or running to the end of the value), recover programs (append/"
    "prepend lengths 0..2^32-1, all encoders, early terminator), execute lists (all 8 executors, module!function with "
    "offsets 0/1/0xffff, NUL padding), process-inject transforms, section tables, pivot frame headers, NUL-terminated "
    "strings with embedded NULs/high bytes, DER + padding, IPv4, kill date, protocol, port, watermark, crypto scheme, "
    "domain lists; BeaconGate cases are 23-flag vectors (all single flags, every 'group minus one', random; thorough: "
    "all 2^23). Non-trivial: every case with at least one non-empty structure. Distinct = distinct block bytes / flag vector."
)
ASSUMPTIONS = [
    "which of the two process-inject transform blobs is 'prepend' is not judged (cannot be established offline): blobs, order and bytes are",
    "the spelling NtQueueApcThread_s / NtQueueApcThread-s is normalised",
    "BeaconGate: group labels first (All | Comms, Core, Cleanup in that order), then the remaining individual APIs in flag-vector order",
    "kill dates are 8-digit YYYYMMDD integers or 0",
]
REQUIRED_MONITORS = ["transform", "recover", "execute", "beacongate", "strings", "derived", "procinj", "gargle", "pivot", "decode.fresh"]
EXHAUSTIVE_WHEN = ["beacongate_2^23"]

OPC = tables.TRANSFORM_OPCODES
ENABLE = ["BASE64", "BASE64URL", "NETBIOS", "NETBIOSU", "URI_APPEND", "PRINT", "MASK"]
ARGUMENT = ["_HEADER", "HEADER", "PARAMETER", "_PARAMETER", "_HOSTHEADER", "APPEND", "PREPEND"]
EXEC = tables.INJECT_EXECUTORS
GATE_FIELDS = [
    "InternetOpenA", "InternetConnectA", "VirtualAlloc", "VirtualAllocEx", "VirtualProtect", "VirtualProtectEx", "VirtualFree",
    "GetThreadContext", "SetThreadContext", "ResumeThread", "CreateThread", "CreateRemoteThread", "OpenProcess", "OpenThread",
    "CloseHandle", "CreateFileMappingA", "MapViewOfFile", "UnmapViewOfFile", "VirtualQuery", "DuplicateHandle",
    "ReadProcessMemory", "WriteProcessMemory", "ExitThread",
]
COMMS = set(GATE_FIELDS[:2])
CORE = set(GATE_FIELDS[2:22])
CLEANUP = {GATE_FIELDS[22]}


def u32(n):
    return struct.pack(">I", n)


# ---- encoders + expected decodings --------------------------------------------------------------------
def enc_transform(prog, terminate):
    out = bytearray()
    for op, arg in prog:
        out += u32(OPC[op])
        if op == "BUILD":
            out += u32(arg)
        elif op in ARGUMENT:
            out += u32(len(arg)) + arg
    if terminate:
        out += u32(0)
    return bytes(out)


def exp_transform(prog, build0):
    exp = []
    for op, arg in prog:
        if op == "BUILD":
            exp.append(("BUILD", build0 if arg == 0 else "output"))
        elif op in ARGUMENT:
            exp.append((op, arg))
        else:
            exp.append((op, True))
    return exp


def gen_transform(rng):
    prog = []
    for _ in range(rng.choice([1, 1, 2, 3])):
        for _ in range(rng.choice([0, 0, 1, 2])):
            prog.append((rng.choice(["_HEADER", "_PARAMETER", "_HOSTHEADER"]), rng.randbytes(rng.choice([0, 1, 5, 30]))))
        prog.append(("BUILD", rng.choice([0, 1])))
        for _ in range(rng.choice([0, 1, 2, 4, 7])):
            op = rng.choice(["BASE64", "BASE64URL", "NETBIOS", "NETBIOSU", "MASK", "APPEND", "PREPEND"])
            prog.append((op, rng.randbytes(rng.choice([0, 1, 3, 16, 200])) if op in ARGUMENT else True))
        t = rng.choice(["PRINT", "URI_APPEND", "HEADER", "PARAMETER"])
        prog.append((t, rng.randbytes(rng.choice([1, 6, 12])) if t in ARGUMENT else True))
    return prog


RECOVER_OPS = {"append": 1, "prepend": 2, "base64": 3, "print": 4, "netbios": 8, "netbiosu": 11, "base64url": 13, "mask": 15}


def gen_recover(rng):
    prog = [("print", True)] if rng.random() < 0.8 else []
    for _ in range(rng.choice([0, 1, 2, 3, 6, 10])):
        op = rng.choice(list(RECOVER_OPS))
        if op in ("append", "prepend"):
            prog.append((op, rng.choice([0, 1, 84, 1522, 3931, 0xFFFF, 0x10000, 2**31, 2**32 - 1, rng.getrandbits(32)])))
        else:
            prog.append((op, True))
    return prog


def enc_recover(prog, terminate):
    out = bytearray()
    for op, arg in prog:
        out += u32(RECOVER_OPS[op])
        if op in ("append", "prepend"):
            out += u32(arg)
    if terminate:
        out += u32(0)
    return bytes(out)


def gen_execute(rng):
    items = []
    for _ in range(rng.choice([0, 1, 2, 4, 8])):
        name = rng.choice(list(EXEC))
        if name in ("CreateThread_", "CreateRemoteThread_"):
            mod = "".join(rng.choice("abcdefghijklmnopqrstuvwxyz0123456789.") for _ in range(rng.randrange(1, 12)))
            fn = "".join(rng.choice("ABCDEFGHIJKLMNOPQRSTUVWXYZabcdef") for _ in range(rng.randrange(1, 16)))
            items.append((name, rng.choice([0, 0, 1, 0x10, 0xFFFF, rng.randrange(0, 65536)]), mod, fn, rng.choice([0, 1, 3]), rng.choice([0, 1, 2])))
        else:
            items.append((name,))
    return items


def enc_execute(items, terminate):
    out = bytearray()
    for it in items:
        out.append(EXEC[it[0]])
        if len(it) > 1:
            _, off, mod, fn, p1, p2 = it
            m = mod.encode() + b"\0" * p1
            f = fn.encode() + b"\0" * p2
            out += struct.pack(">H", off) + u32(len(m)) + m + u32(len(f)) + f
    if terminate:
        out.append(0)
    return bytes(out)


def exp_execute(items):
    exp = []
    for it in items:
        if len(it) > 1:
            _, off, mod, fn, _, _ = it
            s = f"{mod}!{fn}" + (f"+0x{off:x}" if off else "")
            exp.append(f'{it[0].rstrip("_")} "{s}"')
        else:
            exp.append(it[0].replace("_s", "-s"))
    return exp


def norm_exec(lst):
    return [x.replace("NtQueueApcThread_s", "NtQueueApcThread-s") for x in lst]


def exp_gate(flags):
    enabled = {n for n, f in zip(GATE_FIELDS, flags) if f}
    labels = []
    rest = set(enabled)
    if enabled >= (COMMS | CORE | CLEANUP):
        return ["All"], set()
    if enabled >= COMMS:
        labels.append("Comms")
        rest -= COMMS
    if enabled >= CORE:
        labels.append("Core")
        rest -= CORE
    if enabled >= CLEANUP:
        labels.append("Cleanup")
        rest -= CLEANUP
    return labels, rest


def judge_gate(flags, got):
    labels, rest = exp_gate(flags)
    if not isinstance(got, list):
        return f"BeaconGate decoded as {got!r}"
    glabels = [x for x in got if x in ("All", "Comms", "Core", "Cleanup")]
    grest = [x for x in got if x not in ("All", "Comms", "Core", "Cleanup")]
    if glabels != labels or got[: len(glabels)] != glabels:
        return f"group labels {glabels} (expected {labels}) for flags {''.join(map(str, flags))}"
    if len(set(grest)) != len(grest) or set(grest) != rest:
        return f"individual APIs {sorted(grest)} (expected {sorted(rest)}) for flags {''.join(map(str, flags))}"
    # "in order": the individually listed APIs follow the order of the flag vector (a decoding is a function of its input)
    if grest != [n for n in GATE_FIELDS if n in rest]:
        return f"individual APIs listed as {grest}, flag-vector order is {[n for n in GATE_FIELDS if n in rest]}"
    return None


# ---- case construction ----------------------------------------------------------------------------------
def build_case(rng):
    """Returns (block, expectations) where expectations is a list of (monitor, view, key, expected)."""
    recs = [tlv.short(1, rng.choice([0, 1, 2, 4, 8, 16]))]
    exp = []
    proto = struct.unpack(">H", recs[0][6:8])[0]
    exp.append(("derived", "prop", "protocol", {v: k for k, v in tables.PROTOCOLS.items()}[proto]))
    pool = ["transform12", "transform13", "recover", "execute", "procinj46", "procinj47", "gargle", "pivot57", "pivot58", "strings",
            "pubkey", "dnsidle", "killdate", "misc", "domains", "hex", "bof"]
    for what in rng.sample(pool, rng.randrange(2, 8)):
        if what in ("transform12", "transform13"):
            idx = 12 if what == "transform12" else 13
            prog = gen_transform(rng)
            term = rng.random() < 0.7
            val = enc_transform(prog, term)
            if rng.random() < 0.5:
                val = val + (b"" if not term else bytes(rng.choice([0, 4, 64])))
            recs.append(tlv.ptr(idx, val))
            exp.append(("transform", "settings", idx, exp_transform(prog, "metadata" if idx == 12 else "id")))
        elif what == "recover":
            prog = gen_recover(rng)
            term = rng.random() < 0.7
            val = enc_recover(prog, term) + (bytes(rng.choice([0, 4, 32])) if term else b"")
            recs.append(tlv.ptr(11, val))
            exp.append(("recover", "settings", 11, [(op, arg) for op, arg in prog]))
        elif what == "execute":
            items = gen_execute(rng)
            term = rng.random() < 0.7
            val = enc_execute(items, term) + (bytes(rng.choice([0, 1, 16])) if term else b"")
            recs.append(tlv.ptr(51, val))
            exp.append(("execute", "settings", 51, exp_execute(items)))
        elif what in ("procinj46", "procinj47"):
            idx = 46 if what == "procinj46" else 47
            a, b = rng.randbytes(rng.choice([0, 1, 2, 9, 40])), rng.randbytes(rng.choice([0, 1, 2, 9, 40]))
            val = u32(len(a)) + a + u32(len(b)) + b + bytes(rng.choice([0, 8, 100]))
            recs.append(tlv.ptr(idx, val))
            exp.append(("procinj", "blobs", idx, [a, b]))
        elif what == "gargle":
            pairs = [(rng.randrange(1, 2**32), rng.randrange(1, 2**32)) for _ in range(rng.randrange(0, 6))]
            if pairs and rng.random() < 0.4:
                # a section that starts at offset 0, or a (degenerate) one that ends at 0: only the all-zero pair is the terminator
                k = rng.randrange(len(pairs))
                pairs[k] = rng.choice([(0, pairs[k][1]), (pairs[k][0], 0), (0, 0x1000)])
            val = b"".join(struct.pack("<II", s, e) for s, e in pairs) + bytes(8 * rng.choice([0, 1, 3]))
            recs.append(tlv.ptr(42, val))
            exp.append(("gargle", "settings", 42, [f"0x{s:x}-0x{e:x}" for s, e in pairs]))
        elif what in ("pivot57", "pivot58"):
            idx = 57 if what == "pivot57" else 58
            hdr = rng.randbytes(rng.choice([0, 1, 4, 5, 60]))
            val = struct.pack(">H", len(hdr) + 4) + hdr + rng.randbytes(4) + bytes(rng.choice([0, 10, 100]))
            recs.append(tlv.ptr(idx, val))
            exp.append(("pivot", "settings", idx, hdr))
        elif what == "strings":
            for idx in rng.sample([9, 10, 15, 26, 27, 29, 30, 54, 60, 61, 62, 63, 64, 65, 66], rng.randrange(1, 5)):
                r = rng.random()
                if r < 0.5:
                    s = bytes(rng.randrange(32, 127) for _ in range(rng.randrange(0, 40)))
                else:
                    s = bytes(rng.randrange(1, 256) for _ in range(rng.randrange(0, 40)))
                tail = rng.choice([b"", b"\0", b"\0\0hidden\0", b"\0" * 20])
                if idx == 9 and len(s + tail) == 128 and not (s + tail).endswith(b"\0"):
                    tail += b"\0"
                recs.append(tlv.ptr(idx, s + tail))
                exp.append(("strings", "settings-latin1", idx, s))
        elif what == "pubkey":
            der = rng.randbytes(rng.randrange(1, 160)).rstrip(b"\0") + b"\x01"
            recs.append(tlv.ptr(7, der + bytes(rng.choice([0, 1, 94]))))
            exp.append(("strings", "settings", 7, hashlib.sha256(der).hexdigest()))
            exp.append(("derived", "prop", "public_key", der))
        elif what == "dnsidle":
            ip = rng.randbytes(4)
            recs.append(tlv.S(19, 2, ip))
            exp.append(("derived", "settings", 19, ".".join(str(b) for b in ip)))
        elif what == "killdate":
            if rng.random() < 0.3:
                recs.append(tlv.integer(40, 0))
                exp.append(("derived", "prop", "killdate", None))
            else:
                y, m, d = rng.randrange(1000, 10000), rng.randrange(0, 100), rng.randrange(0, 100)
                recs.append(tlv.integer(40, y * 10000 + m * 100 + d))
                exp.append(("derived", "prop", "killdate", f"{y:02d}-{m:02d}-{d:02d}"))
        elif what == "misc":
            port, wm, trial, sleep, jit = rng.randrange(65536), rng.getrandbits(32), rng.choice([0, 1]), rng.getrandbits(32), rng.randrange(100)
            recs += [tlv.short(2, port), tlv.integer(37, wm), tlv.short(31, trial), tlv.integer(3, sleep), tlv.short(5, jit)]
            exp += [("derived", "prop", "port", port), ("derived", "prop", "watermark", wm), ("derived", "prop", "is_trial", bool(trial)),
                    ("derived", "prop", "sleeptime", sleep), ("derived", "prop", "jitter", jit)]
        elif what == "domains" and rng.random() < 0.15:
            # SMB / TCP beacons carry an empty domain list
            stale = rng.choice([b"", b"", b"\0old.example.com,/stale", b"\0\0x"])  # (bytes behind the terminating NUL are not part of the list)
            recs.append(tlv.ptr(8, stale, pad=rng.choice([len(stale), len(stale) + 1, 256])))
            exp += [("derived", "prop", "domain_uri_pairs", []), ("derived", "prop", "domains", []), ("derived", "prop", "uris", [])]
        elif what == "domains":
            n = rng.randrange(1, 5)
            doms = ["".join(rng.choice("abcdefghijklmnopqrstuvwxyz0123456789-.") for _ in range(rng.randrange(1, 20))) for _ in range(n)]
            if rng.random() < 0.3 and n > 1:
                doms[-1] = doms[0]
            uris = ["/" + "".join(rng.choice("abcdefghijklmnopqrstuvwxyz0123456789-._/") for _ in range(rng.randrange(0, 16))) for _ in range(n)]
            if rng.random() < 0.3 and n > 1:
                uris[-1] = uris[0]
            val = ",".join(f"{d},{u}" for d, u in zip(doms, uris)).encode()
            if rng.random() < 0.2:
                val += b"\0" + rng.choice([b"stale.example.com,/old", b",", b"\0,x"])
            recs.append(tlv.ptr(8, val, pad=rng.choice([len(val), len(val) + 1, 256])))
            exp.append(("derived", "prop", "domain_uri_pairs", list(zip(doms, uris))))
            exp.append(("derived", "prop", "domains", list(dict.fromkeys(doms))))
            exp.append(("derived", "prop", "uris", list(dict.fromkeys(uris))))
        elif what == "hex":
            for idx in rng.sample([14, 53, 74], rng.randrange(1, 4)):
                v = rng.randbytes(16)
                recs.append(tlv.ptr(idx, v))
                exp.append(("strings", "settings", idx, v.hex()))
            if rng.random() < 0.5:
                s = bytes(rng.randrange(1, 256) for _ in range(rng.randrange(0, 20)))
                recs.append(tlv.ptr(36, s + b"\0" + rng.randbytes(3)))
                exp.append(("strings", "settings", 36, s))
        elif what == "bof":
            name = rng.choice(list(tables.BOF_ALLOCATORS))
            recs.append(tlv.short(16, tables.BOF_ALLOCATORS[name]))
            exp.append(("derived", "settings", 16, name))
    rest = recs[1:]
    rng.shuffle(rest)
    block = recs[0] + b"".join(rest) + b"\0\0" + bytes(rng.choice([0, 6, 200]))
    return block, exp


def check_case(case, ctx):
    from dissect.cobaltstrike import beacon

    op = case["op"]
    if op == "block":
        block, exp = case["block"], case["exp"]
        try:
            cfg = beacon.BeaconConfig(block)
            s_idx = cfg.settings_by_index
            s_name = cfg.settings
        except Exception as e:  # noqa: BLE001
            ctx.violation("decode.exception", f"{type(e).__name__}: {e}", case)
            return
        if list(s_name.values()) != list(s_idx.values()):
            ctx.violation("views", "name- and constant-indexed pretty views differ", case)
            return
        for monitor, view, key, want in exp:
            ctx.mon(monitor)
            want = _untuple(want)
            try:
                if view == "prop":
                    got = getattr(cfg, key)
                    if key == "domain_uri_pairs":
                        got = [list(p) for p in got]
                        want = [list(p) for p in want]
                elif view == "blobs":
                    got = [bytes(v) for _, v in s_idx[key]]
                    if [k for k, _ in s_idx[key]] not in (["append", "prepend"], ["prepend", "append"]):
                        ctx.violation(monitor, f"setting {key}: labels {[k for k, _ in s_idx[key]]}", case)
                        return
                elif view == "settings-latin1":
                    got = s_idx[key].encode("latin-1") if isinstance(s_idx[key], str) else s_idx[key]
                else:
                    got = s_idx[key]
                    if key == 51:
                        got, want = norm_exec(got), norm_exec(want)
                    if key in (11, 12, 13):
                        got = [list(x) for x in got]
                        want = [list(x) for x in want]
            except Exception as e:  # noqa: BLE001
                ctx.violation(monitor, f"setting/property {key}: {type(e).__name__}: {e}", case)
                return
            if got != want or (isinstance(want, bool) and got is not want):
                ctx.violation(monitor, f"setting/property {key}: decoded {core.short(got, 200)} but the encoded value was {core.short(want, 200)}", case)
                return
        # what a decoder returned belongs to the caller: after the caller edited it, the same bytes decode to the same value
        # again - through the decoding functions themselves, through this object's views and through a new object
        ctx.mon("decode.fresh")
        try:
            snap = repr(list(s_idx.items()))
            raw = cfg.raw_settings_by_index
            for enum_key, func in beacon.SETTING_TO_PRETTYFUNC.items():
                data = raw.get(enum_key.value)
                if not isinstance(data, bytes):
                    continue
                try:
                    first = func(data)
                except Exception:  # noqa: BLE001  out-of-domain value: not this monitor's subject
                    continue
                if isinstance(first, list):
                    before = repr(first)
                    first.append(("edited", b"by the caller"))
                    first.reverse()
                    second = func(data)
                    if repr(second) != before:
                        ctx.violation("decode.fresh", f"{func.__name__}: decoding the same bytes again after the caller edited the first result gives {core.short(repr(second), 120)}, "
                                      f"at first {core.short(before, 120)}", case)
                        return
            for k in list(s_idx):
                v = s_idx[k]
                if isinstance(v, list):
                    v.append(("edited", b"by the caller"))
                    v.insert(0, "edited")
            again = repr(list(beacon.BeaconConfig(block).settings_by_index.items()))
            same_obj = repr(list(cfg.settings_by_index.items()))
        except Exception as e:  # noqa: BLE001
            ctx.violation("decode.fresh", f"{type(e).__name__}: {e}", case)
            return
        if again != snap or same_obj != snap:
            ctx.violation("decode.fresh", "after the caller edited lists taken from the pretty view, the view (same object / new object of the same block) reports other values "
                          "than before", case)
            return
        ctx.ok(fp=block, case={"op": "block", "block": block, "expected": [(m, k, w) for m, _, k, w in exp][:6]},
               classes=tuple({f"has:{m}" for m, _, _, _ in exp}))
    elif op == "gate":
        flags = case["flags"]
        ctx.mon("beacongate")
        block = tlv.short(1, 8) + tlv.ptr(78, bytes(flags)) + b"\0\0"
        try:
            got = beacon.BeaconConfig(block).settings["SETTING_BEACON_GATE"]
        except Exception as e:  # noqa: BLE001
            ctx.violation("beacongate", f"{type(e).__name__}: {e} for flags {''.join(map(str, flags))}", case)
            return
        r = judge_gate(flags, got)
        if r:
            ctx.violation("beacongate", r, case)
            return
        ctx.ok(fp=("gate", bytes(flags)), case=case, classes=("gate",))
    elif op == "gate_range":
        # enumerates flag vectors lo..hi-1 (bit i of the number = flag i) calling the decoder directly
        n = 0
        fn = beacon.SETTING_TO_PRETTYFUNC[beacon.BeaconSetting.SETTING_BEACON_GATE]
        for v in range(case["lo"], case["hi"]):
            flags = [(v >> i) & 1 for i in range(23)]
            try:
                got = fn(bytes(flags))
            except Exception as e:  # noqa: BLE001
                ctx.violation("beacongate", f"{type(e).__name__}: {e} for flags {''.join(map(str, flags))}", {"op": "gate", "flags": flags})
                return
            r = judge_gate(flags, got)
            if r:
                ctx.violation("beacongate", r, {"op": "gate", "flags": flags})
                return
            n += 1
        ctx.monitors["beacongate"] += n
        ctx.bulk(n, n, {"gate:enumerated": n})
    else:
        raise ValueError(op)


def _untuple(o):
    if isinstance(o, (list, tuple)):
        return [_untuple(x) for x in o] if isinstance(o, list) else tuple(_untuple(x) for x in o)
    return o


def plan(tier, seed):
    q = tier == "quick"
    shards = [{"kind": "blocks", "n": 700 if q else 60000} for _ in range(12)]
    shards.append({"kind": "gate_special"})
    if q:
        shards += [{"kind": "gate_random", "n": 5000} for _ in range(3)]
    else:
        step = 1 << 17
        shards += [{"kind": "gate_range", "lo": lo, "hi": lo + step} for lo in range(0, 1 << 23, step)]
    for s in shards:
        s["budget_s"] = 50 if q else 2400
        s["timeout_s"] = 300 if q else 5400
    return shards


def run_shard(shard, ctx):
    rng = ctx.rng
    kind = shard["kind"]
    if kind == "blocks":
        for _ in range(shard["n"]):
            if ctx.out_of_time():
                break
            block, exp = build_case(rng)
            check_case({"op": "block", "block": block, "exp": exp}, ctx)
    elif kind == "gate_special":
        vecs = [[0] * 23, [1] * 23]
        for i in range(23):
            v = [0] * 23
            v[i] = 1
            vecs.append(v)
            v = [1] * 23
            v[i] = 0
            vecs.append(v)
        for grp in (range(0, 2), range(2, 22), range(22, 23)):
            v = [0] * 23
            for i in grp:
                v[i] = 1
            vecs.append(v)
            for i in grp:
                w = list(v)
                w[i] = 0
                vecs.append(w)
            w = [1] * 23
            for i in grp:
                w[i] = 0
            vecs.append(w)
        for v in vecs:
            check_case({"op": "gate", "flags": v}, ctx)
    elif kind == "gate_random":
        for _ in range(shard["n"]):
            p = rng.choice([0.1, 0.5, 0.9, 0.97])
            check_case({"op": "gate", "flags": [1 if rng.random() < p else 0 for _ in range(23)]}, ctx)
    elif kind == "gate_range":
        check_case({"op": "gate_range", "lo": shard["lo"], "hi": shard["hi"]}, ctx)
        ctx.exhaustive["beacongate_2^23"] = True
    else:
        raise ValueError(kind)


LEVEL_TEXT = (
    "Exploration against independent encoders: thousands (thorough: ~700 000) of configuration blocks whose structured "
    "settings were encoded from a model by code written from the binary formats (frozen opcode tables); the decoded "
    "human-readable value of every structured setting and derived property must equal the model step for step, and must "
    "be the same again after the caller edited what it was handed (every decoder called twice around an edit, views re-read). "
    "BeaconGate vectors: all single flags and group boundaries in quick, all 2^23 vectors in thorough."
)
LEVEL_NOTE = "Held on the encodings explored; trusted base: the frozen numbering tables and the encoders in this module."
TECHNIQUE = "reference-model runtime monitor (independent binary encoders -> decoded value compared with the model), exhaustive over BeaconGate vectors in thorough"
