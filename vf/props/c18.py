"""C18 - PE artefacts and the deduced Cobalt Strike version are reported correctly.

Monitors: the reference PE builder's parameters vs pe.find_* / BeaconConfig attributes; the stated version
precedence evaluated on the live tables; own parser for version strings; table monotonicity monitors."""

from __future__ import annotations

import csv
import datetime
import io
import struct
import os
import re

from vf import core
from vf.ref import payload as P
from vf.ref import tlv

ID = "C18"
LEVEL = "exploration"
RULE = (
    "image cases are synthetic stages: x86/x64, e_lfanew 64..1000, MZ magic of 2..4 bytes followed by the reflective "
    "loader stub, PE magic of 0..4 bytes without trailing NULs, compile/export timestamps 1..2^32-1 (table keys, "
    "neighbours, random), 1..8 sections, export directory absent or in any section, prepend 0..900 bytes (random or NOP "
    "sled), append 0..1024 bytes without trailing NULs, optionally XorEncoded and with an embedded configuration. "
    "Version cases are (export stamp or none, highest setting index) pairs over every table key, +-1 neighbours and random "
    "values, and generated strings 'Cobalt Strike M.m[.p] (Mon DD, YYYY)'. Non-trivial: image with prepend, append, "
    "custom magic, export directory or XorEncoding; every version case. Distinct = distinct image bytes / argument tuple."
)
ASSUMPTIONS = [
    "prepended bytes do not themselves contain a complete DOS header whose e_lfanew (>= 64) leads to a Machine word with the matching SizeOfOptionalHeader (random bytes do so with probability ~2^-47 per offset)",
    "sections follow the fixed-size optional header (SizeOfOptionalHeader 224/240), as in every beacon stage",
    "an export timestamp of 0 counts as 'not present'",
    "the DOS area of the image holds no second header window for the same PE header (a dword e_lfanew - k, >= 64, at offset 60 + k): such images have two equally valid readings and are skipped",
]
REQUIRED_MONITORS = ["pe.artifacts", "pe.via_config", "version.precedence", "version.parse", "tables.monotone", "tables.docs_csv"]

MONTHS = {m: i + 1 for i, m in enumerate(["Jan", "Feb", "Mar", "Apr", "May", "Jun", "Jul", "Aug", "Sep", "Oct", "Nov", "Dec"])}


def own_parse(text):
    m = re.fullmatch(r"Cobalt Strike (\d+)\.(\d+)(?:\.(\d+))? \((\w{3}) (\d{2}), (\d{4})\)", text)
    if not m:
        return None, None
    tup = (int(m.group(1)), int(m.group(2))) + ((int(m.group(3)),) if m.group(3) else ())
    return tup, datetime.date(int(m.group(6)), MONTHS[m.group(4)], int(m.group(5)))


def check_case(case, ctx):
    from dissect.cobaltstrike import beacon, pe, version, xordecode

    op = case["op"]
    if op == "image":
        par = case["params"]
        img, info = P.build_pe(_rng(case["seed"]), **{k: par[k] for k in ("arch", "lfanew", "magic_mz", "magic_pe", "compile_stamp",
                                                                            "export_stamp", "nsec", "export_section", "data", "vsize_mode", "export_at_start")},
                                dos_mode=par.get("dos_mode", "random"), dos_stub_start=par.get("dos_stub_start", b""), opt_magic=par.get("opt_magic"),
                                sec_raw=par.get("sec_raw", 0x200))
        lf = par["lfanew"]
        if any(struct.unpack_from("<I", img, k + 60)[0] == lf - k and lf - k >= 64 for k in range(1, lf - 63)):
            # the DOS area itself holds a second complete header window for the same PE header (a dword e_lfanew - k at
            # offset 60 + k): two equally valid readings of the same bytes, nothing to judge
            ctx.ok(fp=("ambiguous", case["seed"]), nontrivial=False, case={"op": "image", "ambiguous": True}, classes=("image:ambiguous-dos-area",))
            return
        prepend, append = par["prepend"], par["append"]
        stage = prepend + img + append + par["nulpad"]
        if par["xorenc"]:
            enc, _ = P.xorencode(stage, par["nonce"], stub=par["stub"], marker=True)
            try:
                fh = xordecode.XorEncodedFile.from_file(io.BytesIO(enc))
            except Exception as e:  # noqa: BLE001
                ctx.violation("pe.artifacts", f"XorEncoded stage not opened: {type(e).__name__}: {e}", case)
                return
            wire = enc
        elif par.get("fileobj") == "mmap":
            # a memory-mapped stage: positions beyond its end are refused, not read as empty
            import mmap

            fh = mmap.mmap(-1, len(stage))
            fh.write(stage)
            fh.seek(0)
            wire = stage
        else:
            fh = io.BytesIO(stage)
            wire = stage
        ctx.mon("pe.artifacts")
        want = {
            "mz_offset": len(prepend),
            "architecture": par["arch"],
            "compile_stamps": (par["compile_stamp"], par["export_stamp"] if par["export_section"] is not None else None),
            "magic_mz": par["magic_mz"],
            "magic_pe": par["magic_pe"],
            "prepend_append": (prepend or None, (append if (append or par["nulpad"]) else None)),
        }
        # the caller may widen the search range for the image start (stages with more than 1 KiB of prepended bytes): every
        # helper honours it alike
        kw = {"maxrange": par["maxrange"]} if par.get("maxrange") else {}
        try:
            got = {
                "mz_offset": pe.find_mz_offset(fh, **kw),
                "architecture": pe.find_architecture(fh, **kw),
                "compile_stamps": tuple(pe.find_compile_stamps(fh, **kw)),
                "magic_mz": pe.find_magic_mz(fh, **kw),
                "magic_pe": pe.find_magic_pe(fh, **kw),
                "prepend_append": tuple(pe.find_stage_prepend_append(fh, **kw)),
            }
        except Exception as e:  # noqa: BLE001
            ctx.violation("pe.artifacts", f"{type(e).__name__}: {e}", case)
            return
        bad = {k: (got[k], want[k]) for k in want if got[k] != want[k]}
        if bad:
            ctx.violation("pe.artifacts", "; ".join(f"{k}: reported {core.short(g, 60)!r}, image has {core.short(w, 60)!r}" for k, (g, w) in bad.items()), case)
            return
        if par["data"] and not par.get("maxrange"):
            ctx.mon("pe.via_config")
            try:
                c = beacon.BeaconConfig.from_bytes(wire)
            except Exception as e:  # noqa: BLE001
                ctx.violation("pe.via_config", f"{type(e).__name__}: {e}", case)
                return
            exp_stamp = want["compile_stamps"][1]
            facts = (c.architecture, c.pe_compile_stamp, c.pe_export_stamp, c.xorencoded)
            if par.get("guarded") and c.guardrails is None:
                ctx.violation("pe.via_config", "Guardrails-protected configuration extracted without guard metadata", case)
                return
            if facts != (par["arch"], par["compile_stamp"], exp_stamp, par["xorenc"]):
                ctx.violation("pe.via_config", f"BeaconConfig reports (arch, compile, export, xorencoded) = {facts}, image has {(par['arch'], par['compile_stamp'], exp_stamp, par['xorenc'])}", case)
                return
            r = _version_rule(version, exp_stamp, c.max_setting_enum, c.version)
            if r:
                ctx.violation("version.precedence", r, case)
                return
            ctx.mon("version.precedence")
        nt = bool(prepend or append or par["xorenc"] or par["magic_mz"] != b"MZ" or par["magic_pe"] != b"PE" or par["export_section"] is not None)
        ctx.ok(fp=wire, nontrivial=nt, case={"op": "image", "params": {k: v for k, v in par.items() if k != "data"}, "config_embedded": bool(par["data"])},
               classes=(f"arch:{par['arch']}", f"xorenc:{par['xorenc']}", f"prepend:{'0' if not prepend else '1-899' if len(prepend) < 900 else '900' if len(prepend) == 900 else '>=1024+maxrange'}",
                        f"append:{'none' if not append else 'some'}", f"export:{'none' if par['export_section'] is None else 'sec%d' % min(par['export_section'], par['nsec'] - 1)}",
                        f"nsec:{par['nsec']}", f"magic_mz:{len(par['magic_mz'])}", f"magic_pe:{len(par['magic_pe'])}",
                        f"vsize:{par['vsize_mode']}", "export:section-start" if par["export_at_start"] and par["export_section"] is not None else "export:inside",
                        f"config:{'none' if not par['data'] else 'guardrails' if par.get('guarded') else 'plain'}", f"file:{par.get('fileobj', 'bytesio')}",
                        "stage:tiny" if par.get("sec_raw") else "stage:normal"))
    elif op == "version":
        stamp, maxenum = case["stamp"], case["maxenum"]
        ctx.mon("version.precedence")
        cfg = beacon.BeaconConfig(tlv.short(1, 8) + (tlv.S(maxenum, 3, b"x") if maxenum > 1 else b"") + b"\0\0")
        cfg.pe_export_stamp = stamp
        try:
            v = cfg.version
        except Exception as e:  # noqa: BLE001
            ctx.violation("version.precedence", f"{type(e).__name__}: {e}", case)
            return
        r = _version_rule(version, stamp, max(maxenum, 1), v)
        if r:
            ctx.violation("version.precedence", r, case)
            return
        ctx.ok(fp=("v", stamp, maxenum), case=case, classes=("version:stamp" if stamp else "version:enum", "version:known" if str(v) != "Unknown" else "version:unknown"))
    elif op == "vstring":
        text = case["text"]
        ctx.mon("version.parse")
        v = version.BeaconVersion(text)
        tup, date = own_parse(text)
        if v.tuple != tup or v.date != date or str(v) != text:
            ctx.violation("version.parse", f"BeaconVersion({text!r}): tuple={v.tuple} date={v.date}, the text says {tup} {date}", case)
            return
        if tup is not None:
            vo = ".".join(map(str, tup))
            if v.version_only != vo or v.version_string != f"Cobalt Strike {vo}":
                ctx.violation("version.parse", f"version_only/version_string {v.version_only!r}/{v.version_string!r} for {text!r}", case)
                return
        elif v.version_only != "Unknown":
            ctx.violation("version.parse", f"unparsable text {text!r} gives version_only={v.version_only!r}", case)
            return
        ctx.ok(fp=("s", text), case=case, classes=("vstring:parsed" if tup else "vstring:unknown",))
    elif op == "tables":
        _check_tables(ctx, version, case)
    else:
        raise ValueError(op)


def _version_rule(version, stamp, maxenum, got):
    if stamp:
        text = version.PE_EXPORT_STAMP_TO_VERSION.get(stamp, "Unknown")
    else:
        text = version.MAX_ENUM_TO_VERSION.get(maxenum, "Unknown")
    if str(got) != text:
        return f"version {str(got)!r} for export stamp {stamp!r} / highest index {maxenum}; table precedence gives {text!r}"
    tup, date = own_parse(text)
    if got.tuple != tup or got.date != date:
        return f"version {text!r}: tuple/date {got.tuple}/{got.date} disagree with the text ({tup}/{date})"
    return None


def _check_tables(ctx, version, case):
    n = 0
    for name, table in (("PE_EXPORT_STAMP_TO_VERSION", version.PE_EXPORT_STAMP_TO_VERSION), ("MAX_ENUM_TO_VERSION", version.MAX_ENUM_TO_VERSION)):
        prev = None
        for key in sorted(table):
            ctx.mon("tables.monotone")
            tup, date = own_parse(table[key])
            if tup is None:
                ctx.violation("tables.monotone", f"{name}[{key:#x}] = {table[key]!r} is not of the documented shape", case)
                return
            bv = version.BeaconVersion(table[key])
            if bv.tuple != tup or bv.date != date:
                ctx.violation("version.parse", f"{name}[{key:#x}]: parsed {bv.tuple}/{bv.date} vs text {tup}/{date}", case)
                return
            cur = (tup + (0,) * (3 - len(tup)), date)
            if prev is not None and (cur[0] < prev[1][0] or cur[1] < prev[1][1]):
                ctx.violation("tables.monotone", f"{name}: key {key:#x} -> {table[key]!r} is an earlier release than key {prev[0]:#x} -> {table[prev[0]]!r}", case)
                return
            prev = (key, cur)
            n += 1
    path = os.path.join(core.REPO, "docs", "cobaltstrike-beacon-versions.csv")
    rows = 0
    if os.path.exists(path):
        with open(path, newline="") as f:
            for row in csv.DictReader(f):
                ctx.mon("tables.docs_csv")
                stamp = int(row["Export Stamp"])
                if int(row["Hex"], 16) != stamp or version.PE_EXPORT_STAMP_TO_VERSION.get(stamp) != row["Cobalt Strike version"]:
                    ctx.violation("tables.docs_csv", f"docs row {row} disagrees with the stamp table ({version.PE_EXPORT_STAMP_TO_VERSION.get(stamp)!r})", case)
                    return
                rows += 1
        if rows != len(version.PE_EXPORT_STAMP_TO_VERSION):
            ctx.violation("tables.docs_csv", f"docs CSV has {rows} rows, the stamp table {len(version.PE_EXPORT_STAMP_TO_VERSION)}", case)
            return
    ctx.bulk(n + rows, n + rows, {"tables:rows": n + rows})


def _rng(seed):
    import random

    return random.Random(seed)


def gen_image(rng, version):
    arch = rng.choice(["x86", "x64"])
    stamps = list(version.PE_EXPORT_STAMP_TO_VERSION)
    nsec = rng.randrange(1, 9)
    magic_mz = rng.choice([b"MZ", b"MZ", b"MZRE", b"MZAR", b"OOPS", bytes(rng.randrange(0x41, 0x5B) for _ in range(rng.randrange(2, 5)))])
    magic_pe = rng.choice([b"PE", b"PE", b"EA", b"XYZW", b"", bytes(rng.randrange(1, 256) for _ in range(rng.randrange(1, 5)))])
    for bad in (P.STUB_X86, P.STUB_X64):
        if bad in magic_mz:
            magic_mz = b"MZ"
    data = b""
    guarded = False
    if rng.random() < 0.5:
        cfg = tlv.short(1, 8) + tlv.short(2, 443) + tlv.S(rng.choice([20, 31, 37, 53, 59, 70, 74, 76, 78, 77, 60]), 3, b"abcd")
        data = P.filler(rng, rng.randrange(0, 300)) + P.rx1(cfg.ljust(4096, b"\0"), rng.choice([0x69, 0x2E, 0x00])) + P.filler(rng, rng.randrange(0, 100))
        if rng.random() < 0.12:
            # the configuration is protected with Guardrails instead: extraction takes another route, the artefacts are the same
            gb, _ = P.guard_block(rng, cfg, rng.choice([b"WIN-7F3KQ2", b"corp.example", b"jdoe", rng.randbytes(rng.randrange(2, 40))]),
                                  [(5, 1, b"\x12\x34")])
            data = P.filler(rng, rng.randrange(0, 300)) + gb + P.filler(rng, rng.randrange(0, 100))
            guarded = True
    prepend_len = rng.choice([0, 0, 1, 9, 64, rng.randrange(0, 901), 900])
    r = rng.random()
    if r < 0.4:
        prepend = b"\x90" * prepend_len
    elif r < 0.6:
        # neutral instruction pairs as Malleable 'prepend' junk: add/sub rax,r8 (4c 01 c0 4c 29 c0), inc/dec, xchg ...
        junk = [b"\x90", b"\x90", b"\x4c\x01\xc0\x4c\x29\xc0", b"\x40\x48", b"\x66\x90", b"\x50\x58", b"\x64\x86\xc0\x64\x86\xc0"[2:]]
        prepend = b""
        while len(prepend) < prepend_len:
            prepend += rng.choice(junk)
    else:
        prepend = P.filler(rng, prepend_len)
    append = b""
    if rng.random() < 0.5:
        append = P.filler(rng, rng.choice([1, 4, 100, 1024, rng.randrange(1, 1025)])).rstrip(b"\0") or b"\x01"
        if append[-1] == 0:
            append = append[:-1] + b"\x01"
    extra = {}
    if rng.random() < 0.15:
        extra["fileobj"] = "mmap"
    if rng.random() < 0.1 and not guarded:
        # a tiny stage (one 64-byte section) behind prepended bytes that hold an e_lfanew look-alike pointing beyond the end
        # of the file: not a header, the scan goes on to the real one
        data, nsec = b"", 1
        extra["sec_raw"] = 64
        extra["fileobj"] = rng.choice(["mmap", "mmap", "bytesio"])
        prepend_len = rng.choice([64, 100, 300])
        b = bytearray(b"\x90" * prepend_len if rng.random() < 0.5 else P.filler(rng, prepend_len))
        k = rng.randrange(0, prepend_len - 63)
        b[k + 60 : k + 64] = struct.pack("<I", rng.randrange(900, 1024))
        prepend = bytes(b)
        append = b""
        extra["lfanew"] = rng.choice([64, 0x80])
    xorenc = rng.random() < 0.35 and "fileobj" not in extra
    if not xorenc and "sec_raw" not in extra and rng.random() < 0.08:
        prepend = b"\x90" * rng.choice([1024, 1500, 3000])
        extra["maxrange"] = len(prepend) + rng.choice([1, 64, 1000])
    return {
        **extra,
        "arch": arch, "lfanew": extra.get("lfanew") or rng.choice([64, 0x80, 0xF8, 1000, rng.randrange(64, 1001), rng.randrange(64, 260), rng.choice([172, 176, 183, 198, 0xE8])]),
        "magic_mz": magic_mz, "magic_pe": magic_pe, "dos_mode": rng.choice(["random", "genuine"]),
        # DOS stub bytes that continue e_lfanew = e8 00 00 00 into the other architecture's bootstrap pattern (e8 00 00 00 00 5b)
        "opt_magic": rng.choice([None, None, None, 0, 0x10B, 0x20B, rng.randrange(0, 0x10000)]),
        "dos_stub_start": rng.choice([b"", b"", b"\x00\x5b", b"\x00\x5b\x89\xdf", b"\x55\x48\x89\xe5\x48\x81"]),
        "compile_stamp": rng.choice([0, 1, 2**32 - 1, rng.randrange(1, 2**32), (rng.randrange(1, 2**16) << 16) | rng.choice([0x8664, 0x014C])]),
        "export_stamp": rng.choice([rng.choice(stamps), rng.choice(stamps), rng.choice(stamps) + rng.choice([-1, 1]), 1, 2**32 - 1, rng.randrange(1, 2**32)]),
        "nsec": nsec, "export_section": rng.choice([None, 0, 1, nsec - 1, rng.randrange(0, nsec)]), "data": data,
        "prepend": prepend, "append": append, "nulpad": bytes(rng.choice([0, 0, 3, 64])) if append else bytes(rng.choice([0, 0, 0, 16])),
        "xorenc": xorenc, "nonce": rng.randbytes(4), "stub": P.filler(rng, rng.choice([0, 57, rng.randrange(0, 800)])),
        "vsize_mode": rng.choice(["raw", "aligned"]), "export_at_start": rng.random() < 0.5 or "sec_raw" in extra, "guarded": guarded,
    }


def plan(tier, seed):
    q = tier == "quick"
    shards = [{"kind": "images", "n": 100 if q else 7000} for _ in range(14)]
    shards.append({"kind": "versions", "n": 3000 if q else 100000})
    shards.append({"kind": "tables"})
    for s in shards:
        s["budget_s"] = 50 if q else 2400
        s["timeout_s"] = 300 if q else 5400
    return shards


def run_shard(shard, ctx):
    from dissect.cobaltstrike import version

    rng = ctx.rng
    kind = shard["kind"]
    if kind == "images":
        for _ in range(shard["n"]):
            if ctx.out_of_time():
                break
            par = gen_image(rng, version)
            if par["append"] and par["nulpad"] and False:
                pass
            check_case({"op": "image", "params": par, "seed": rng.getrandbits(32)}, ctx)
    elif kind == "versions":
        stamps = sorted(version.PE_EXPORT_STAMP_TO_VERSION)
        enums = sorted(version.MAX_ENUM_TO_VERSION)
        for st in [None, 0] + stamps + [s + d for s in stamps for d in (-1, 1)]:
            for en in (enums[0], enums[-1], 1, 79):
                check_case({"op": "version", "stamp": st, "maxenum": en}, ctx)
        for en in range(1, 90):
            check_case({"op": "version", "stamp": None, "maxenum": en}, ctx)
            check_case({"op": "version", "stamp": 0, "maxenum": en}, ctx)
        # one number looked up in both tables, in either order (a tiny export stamp that is also a setting index, a setting
        # index that is also a stamp): each lookup answers from its own table
        for en in range(1, 90):
            order = [{"op": "version", "stamp": None, "maxenum": en}, {"op": "version", "stamp": en, "maxenum": 1}]
            for c in order if en % 2 else order[::-1]:
                check_case(c, ctx)
        for _ in range(shard["n"]):
            if ctx.out_of_time():
                break
            st = rng.choice([None, rng.choice(stamps), rng.randrange(1, 2**32), rng.choice(stamps) + rng.choice([-1, 1]), rng.randrange(1, 90)])
            check_case({"op": "version", "stamp": st, "maxenum": rng.choice(enums + [rng.randrange(1, 200)])}, ctx)
            mon = rng.choice(list(MONTHS))
            maj, mi, pa = rng.randrange(0, 20), rng.randrange(0, 30), rng.choice([None, None, rng.randrange(0, 12)])
            text = f"Cobalt Strike {maj}.{mi}" + (f".{pa}" if pa is not None else "") + f" ({mon} {rng.randrange(1, 29):02d}, {rng.randrange(2012, 2031)})"
            check_case({"op": "vstring", "text": text}, ctx)
        for text in ("Unknown", "", "Cobalt Strike", "Cobalt Strike 4 (Jan 01, 2020)", "cobalt strike 4.5 (Dec 14, 2021)"):
            check_case({"op": "vstring", "text": text}, ctx)
        # the tables once more, after all these lookups (known and unknown keys): lookups do not change them
        check_case({"op": "tables"}, ctx)
    elif kind == "tables":
        check_case({"op": "tables"}, ctx)
    else:
        raise ValueError(kind)


LEVEL_TEXT = (
    "Exploration against the reference PE builder: thousands (thorough: ~100 000) of synthetic stages with varied "
    "architecture, e_lfanew, magic bytes, timestamps, section counts, export-directory placement, prepend/append bytes "
    "and optional XorEncoding are analysed by the real pe.find_* helpers and BeaconConfig.from_bytes and compared with "
    "the builder parameters; the version precedence rule is evaluated on the live tables for every table key, its "
    "neighbours and random values; monitors walk both tables for monotonicity and the documentation CSV for agreement."
)
LEVEL_NOTE = "Held on the images explored; trusted base: the reference PE builder (PE/COFF layout), own version-string parser."
TECHNIQUE = "reference-model runtime monitor (builder parameters vs reported artefacts) + table invariants walked at run time"
