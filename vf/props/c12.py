"""C12 - profile string literals encode and decode bytes losslessly and safely.

Monitors: own literal decoder beside string_token_to_bytes; round-trip identity over exhaustively enumerated
byte strings; a parse-tree monitor that checks the literal is exactly one STRING token and that a sentinel
statement after it survives (no early termination / syntax injection)."""

from __future__ import annotations

import itertools

from vf import core

ID = "C12"
LEVEL = "exploration"
RULE = (
    "direct cases: every byte string of length <= 2 over 0x00..0xff (65 793, enumerated) and random strings up to 64 "
    "bytes through value_to_string -> string_token_to_bytes. Parser cases: byte strings embedded as a literal in three "
    "statement contexts (global option, header pair, data-transform argument) followed by a sentinel statement: every "
    "string up to length 3 (quick) / 4 (thorough) over the syntax alphabet {\" \\ x u newline ; { } #}, every 1-byte "
    "string (thorough: every 2-byte string), random strings. Escape cases: \\xHH and \\u00HH for all 256 values, \\n \\r "
    "\\t \\\\ \\\" \\' at start/middle/end of hand-written literals. Non-trivial: strings containing at least one byte that "
    "needs escaping or is syntax-relevant; every escape case. Distinct by construction / distinct bytes."
)
ASSUMPTIONS = [
    "\\uHHHH with HHHH > 0x00ff is judged by consistency only: it decodes like the raw character U+HHHH in the same literal (the byte value itself is not documented)",
    "unknown escapes (backslash + other character) are not generated in hand-written literals",
    "str arguments to the builder are pre-escaped text by contract and are judged in C13, not here",
]
REQUIRED_MONITORS = ["direct.roundtrip", "parser.one_token", "parser.sentinel", "escape.value"]
EXHAUSTIVE_WHEN = ["bytes_len<=2_direct", "syntax_alphabet_parser"]

SYNTAX = [b'"', b"\\", b"x", b"u", b"\n", b";", b"{", b"}", b"#"]


def lit_decode(text):
    """own decoder of the text between the quotes"""
    out = bytearray()
    i = 0
    n = len(text)
    while i < n:
        c = text[i]
        if c == "\\" and i + 1 < n:
            e = text[i + 1]
            if e == "x":
                out.append(int(text[i + 2 : i + 4], 16))
                i += 4
            elif e == "u":
                out.append(int(text[i + 2 : i + 6], 16) & 0xFF)
                i += 6
            elif e in "nrt":
                out.append({"n": 10, "r": 13, "t": 9}[e])
                i += 2
            elif e in "\\\"'":
                out.append(ord(e))
                i += 2
            else:
                raise ValueError(f"unknown escape \\{e}")
        else:
            out.append(ord(c) & 0xFF)
            i += 1
    return bytes(out)


CONTEXTS = {
    "option": ('set sample_name %s;\nset jitter "99";\n', ("option", 0)),
    "pair": ('http-get { client { header %s "v1"; header "k2" %s; } }\nset jitter "99";\n', None),
    "transform": ('http-get { client { metadata { prepend %s; append %s; print; } } }\nset jitter "99";\n', None),
}


def direct(data, c2p):
    lit = c2p.value_to_string(data)
    if not (isinstance(lit, str) and len(lit) >= 2 and lit[0] == '"' and lit[-1] == '"'):
        return f"value_to_string({data!r}) = {lit!r} is not a double-quoted literal"
    back = c2p.string_token_to_bytes(c2p.Token("STRING", lit))
    if back != data:
        return f"value_to_string({data!r}) = {lit!r} reads back as {back!r}"
    try:
        own = lit_decode(lit[1:-1])
    except Exception as e:  # noqa: BLE001
        return f"literal {lit!r} for {data!r} is not decodable by the reference: {e}"
    if own != data:
        return f"literal {lit!r} means {own!r} to the reference decoder, not {data!r}"
    return None


def tokens_of(tree, Token):
    return [t for t in tree.scan_values(lambda v: isinstance(v, Token) and v.type == "STRING")]


def parse_in_context(lit, ctxname, c2p):
    """Returns None or (monitor, message).  lit is the literal text including quotes."""
    tmpl, _ = CONTEXTS[ctxname]
    src = tmpl.replace("%s", lit)
    try:
        prof = c2p.C2Profile.from_text(src)
    except Exception as e:  # noqa: BLE001
        return "parser.one_token", f"[{ctxname}] literal {lit!r} makes the profile unparsable: {type(e).__name__}: {str(e)[:120]}"
    toks = [str(t) for t in tokens_of(prof.tree, c2p.Token)]
    nlit = tmpl.count("%s")
    want = {
        "option": [lit, '"99"'],
        "pair": [lit, '"v1"', '"k2"', lit, '"99"'],
        "transform": [lit, lit, '"99"'],
    }[ctxname]
    if toks != want:
        return "parser.one_token", f"[{ctxname}] literal {lit!r} lexed as {toks!r} (expected {nlit} occurrence(s) as single tokens)"
    kids = prof.tree.children
    last = kids[-1]
    if len(kids) != 2 or last.data != "option" or str(last.children[0]) != "jitter" or str(last.children[1].children[0]) != '"99"':
        return "parser.sentinel", f"[{ctxname}] sentinel statement after literal {lit!r} is not intact: {[k.data for k in kids]}"
    return None


def check_bytes_in_parser(data, ctxname, c2p, as_dict=False):
    lit = c2p.value_to_string(data)
    r = parse_in_context(lit, ctxname, c2p)
    if r:
        return r
    if as_dict and ctxname in ("option", "pair"):
        d = c2p.C2Profile.from_text(CONTEXTS[ctxname][0].replace("%s", lit)).as_dict()
        try:
            text = data.decode("latin-1")
        except Exception:  # noqa: BLE001
            text = None
        hdr = d.get("http-get.client.header")
        if ctxname == "pair" and not (isinstance(hdr, list) and len(hdr) == 2 and all(isinstance(t, tuple) and len(t) == 2 for t in hdr)
                                      and hdr[0][1] in ("v1", b"v1") and hdr[1][0] in ("k2", b"k2") and hdr[0][0] == hdr[1][1]):
            return "parser.as_dict", f"as_dict() reports {d.get('http-get.client.header')!r} for the header pairs with literal {lit!r} of {data!r}"
        if ctxname == "option" and (list(d) != ["sample_name", "jitter"] or len(d["sample_name"]) != 1):
            return "parser.as_dict", f"as_dict() reports {d!r} for 'set sample_name {lit};'"
    if as_dict and ctxname == "transform":
        prof = c2p.C2Profile.from_text(CONTEXTS[ctxname][0].replace("%s", lit))
        d = prof.as_dict()
        got = d.get("http-get.client.metadata")
        if got != [("prepend", data), ("append", data), "print"]:
            return "parser.as_dict", f"as_dict() reports {got!r} for literal {lit!r} of {data!r}"
        # the same bytes handed to the profile builder (steps and both kinds of termination), printed and parsed again
        for term in ("header", "parameter"):
            blk = c2p.DataTransformBlock()
            blk.add_step("prepend", data)
            blk.add_step("append", data)
            blk.add_termination(term, data)
            built = c2p.C2Profile()
            built.set_config_block("http_get", c2p.HttpGetBlock(client=c2p.HttpOptionsBlock(metadata=blk)))
            got = c2p.C2Profile.from_text(built.as_text()).as_dict().get("http-get.client.metadata")
            if got != [("prepend", data), ("append", data), (term, data)]:
                return "parser.as_dict", f"builder route: steps and '{term}' termination given {data!r} read back as {got!r}"
    return None


def needs_escape(data):
    return any(b < 0x20 or b >= 0x7F or b in b'"\\;{}#\'' for b in data)


def check_case(case, ctx):
    from dissect.cobaltstrike import c2profile as c2p

    op = case["op"]
    if op == "direct":
        ctx.mon("direct.roundtrip")
        r = direct(case["data"], c2p)
        if r:
            ctx.violation("direct.roundtrip", r, case)
            return
        ctx.ok(fp=case["data"], nontrivial=needs_escape(case["data"]), case=case, classes=("direct:random",))
    elif op == "direct_block":
        first = case["first"]
        n = nt = 0
        ctx.monitors["direct.roundtrip"] += 0
        datas = [bytes([first])] + [bytes([first, b]) for b in range(256)]
        if first == 0:
            datas.append(b"")
        for data in datas:
            ctx.monitors["direct.roundtrip"] += 1
            r = direct(data, c2p)
            if r:
                ctx.violation("direct.roundtrip", r, {"op": "direct", "data": data})
                return
            n += 1
            nt += needs_escape(data)
        ctx.bulk(n, nt)
    elif op == "parser":
        data, cx = case["data"], case["context"]
        ctx.mon("parser.one_token")
        ctx.mon("parser.sentinel")
        r = check_bytes_in_parser(data, cx, c2p, as_dict=case.get("as_dict", False))
        if r:
            ctx.violation(r[0], r[1], case)
            return
        ctx.ok(fp=(data, cx), nontrivial=needs_escape(data), case=case, classes=(f"ctx:{cx}",))
    elif op == "parser_block":
        n = nt = 0
        for data in case["datas"]:
            for cx in CONTEXTS:
                ctx.monitors["parser.one_token"] += 1
                ctx.monitors["parser.sentinel"] += 1
                r = check_bytes_in_parser(data, cx, c2p, as_dict=case.get("as_dict", False))
                if r:
                    ctx.violation(r[0], r[1], {"op": "parser", "data": data, "context": cx, "as_dict": case.get("as_dict", False)})
                    return
                n += 1
                nt += needs_escape(data)
        ctx.bulk(n, nt, {f"ctx:{c}": len(case["datas"]) for c in CONTEXTS})
    elif op == "escape":
        text, want, cx = case["text"], case["want"], case["context"]
        ctx.mon("escape.value")
        lit = '"' + text + '"'
        r = parse_in_context(lit, cx, c2p)
        if r:
            ctx.violation(r[0], r[1], case)
            return
        try:
            got = c2p.string_token_to_bytes(c2p.Token("STRING", lit))
        except Exception as e:  # noqa: BLE001
            ctx.violation("escape.value", f"literal {lit!r} (documented value {want!r}) cannot be decoded: {type(e).__name__}: {e}", case)
            return
        if got != want:
            ctx.violation("escape.value", f"literal {lit!r} decodes to {got!r}, documented value {want!r}", case)
            return
        if cx == "transform" and case.get("as_dict"):
            try:
                d = c2p.C2Profile.from_text(CONTEXTS[cx][0].replace("%s", lit)).as_dict()
            except Exception as e:  # noqa: BLE001
                ctx.violation("escape.value", f"as_dict() for literal {lit!r}: {type(e).__name__}: {e}", case)
                return
            if d.get("http-get.client.metadata") != [("prepend", want), ("append", want), "print"]:
                ctx.violation("escape.value", f"as_dict() gives {d.get('http-get.client.metadata')!r} for literal {lit!r}", case)
                return
        ctx.ok(fp=(text, cx), case=case, classes=(f"escape:{case['kind']}", f"pos:{case['pos']}"))
    elif op == "after_refusal":
        # history: a literal that the decoder refuses (malformed escape), then well-formed ones - whatever was decoded of the
        # refused literal must not reach the following results
        ctx.mon("escape.value")
        try:
            c2p.string_token_to_bytes(c2p.Token("STRING", '"' + case["bad"] + '"'))
            refused = False
        except Exception:  # noqa: BLE001
            refused = True
        for text, want in case["then"]:
            try:
                got = c2p.string_token_to_bytes(c2p.Token("STRING", '"' + text + '"'))
            except Exception as e:  # noqa: BLE001
                ctx.violation("escape.value", f"literal {text!r} after the malformed {case['bad']!r}: {type(e).__name__}: {e}", case)
                return
            if got != want:
                ctx.violation("escape.value", f"literal {text!r} decoded right after the {'refused' if refused else 'tolerated'} malformed literal {case['bad']!r} gives {got!r}, documented value {want!r}", case)
                return
        ctx.ok(fp=("after", case["bad"], tuple(t for t, _ in case["then"])), case=case, classes=("history:after-refusal",))
    else:
        raise ValueError(op)


def plan(tier, seed):
    q = tier == "quick"
    shards = []
    for part in range(8):
        shards.append({"kind": "direct", "part": part, "n": 4000 if q else 150000})
    maxlen = 3 if q else 4
    strings = [b"".join(t) for ln in range(0, maxlen + 1) for t in itertools.product(SYNTAX, repeat=ln)]
    nparts = 8 if q else 24
    for part in range(nparts):
        shards.append({"kind": "syntax", "part": part, "parts": nparts, "maxlen": maxlen})
    for part in range(4 if q else 16):
        shards.append({"kind": "bytes_parser", "part": part, "parts": 4 if q else 16, "two": not q})
    shards.append({"kind": "escapes", "as_dict": not q})
    shards.append({"kind": "random_parser", "n": 300 if q else 20000})
    for s in shards:
        s["budget_s"] = 50 if q else 1800
        s["timeout_s"] = 300 if q else 3600
    return shards


def run_shard(shard, ctx):
    rng = ctx.rng
    kind = shard["kind"]
    if kind == "direct":
        for first in range(shard["part"] * 32, shard["part"] * 32 + 32):
            check_case({"op": "direct_block", "first": first}, ctx)
        ctx.exhaustive["bytes_len<=2_direct"] = True
        if shard["part"] == 0:
            # blobs (shellcode, images): literal texts far beyond 64 K characters, escapes at every alignment
            for data in (b"A" + b"\x90" * 17000, b"\x90" * 20000, bytes(range(256)) * 100, b"ab" + b"\xff\x00" * 9000, b"x" * 70000 + b"\x01\x02"):
                check_case({"op": "direct", "data": data}, ctx)
            check_case({"op": "parser", "data": b"MZ" + b"\x90" * 17000, "context": "transform", "as_dict": True}, ctx)
            # values that coincide with words of the language
            for word in (b"default", b"Default", b"true", b"print", b"set", b"{", b"base64"):
                for cx in CONTEXTS:
                    check_case({"op": "parser", "data": word, "context": cx, "as_dict": True}, ctx)
        for _ in range(shard["n"]):
            if ctx.out_of_time():
                break
            ln = rng.randrange(3, 65)
            r = rng.random()
            if r < 0.4:
                data = rng.randbytes(ln)
            elif r < 0.8:
                data = b"".join(rng.choice(SYNTAX + [b"'", b"a", b"\xff", b"\x00", b"\r", b"\t"]) for _ in range(ln))
            else:
                data = bytes(rng.randrange(32, 127) for _ in range(ln))
            check_case({"op": "direct", "data": data}, ctx)
    elif kind == "syntax":
        strings = [b"".join(t) for ln in range(0, shard["maxlen"] + 1) for t in itertools.product(SYNTAX, repeat=ln)]
        mine = strings[shard["part"] :: shard["parts"]]
        for i in range(0, len(mine), 50):
            check_case({"op": "parser_block", "datas": mine[i : i + 50], "as_dict": False}, ctx)
            if ctx.out_of_time():
                return
        ctx.exhaustive["syntax_alphabet_parser"] = True
    elif kind == "bytes_parser":
        vals = list(range(256))[shard["part"] :: shard["parts"]]
        datas = [bytes([b]) for b in vals]
        if shard["two"]:
            datas += [bytes([a, b]) for a in vals for b in range(256)]
        for i in range(0, len(datas), 64):
            check_case({"op": "parser_block", "datas": datas[i : i + 64]}, ctx)
            if ctx.out_of_time():
                return
        ctx.exhaustive["bytes_len<=%d_parser" % (2 if shard["two"] else 1)] = True
    elif kind == "escapes":
        cases = []
        for v in range(256):
            cases.append(("xHH", "\\x%02x" % v, bytes([v])))
            cases.append(("xHH-upper", "\\x%02X" % v, bytes([v])))
            cases.append(("u00HH", "\\u00%02x" % v, bytes([v])))
            h = "%02x" % v
            if h[0].isalpha() or h[1].isalpha():
                # hex digits are case-insensitive one by one: \xaB, \xAb, \u00Dc
                for mixed in {h[0].upper() + h[1], h[0] + h[1].upper()} - {h, h.upper()}:
                    cases.append(("xHH-mixed", "\\x" + mixed, bytes([v])))
                    cases.append(("u00HH-mixed", "\\u00" + mixed, bytes([v])))
        for e, b in (("\\n", b"\n"), ("\\r", b"\r"), ("\\t", b"\t"), ("\\\\", b"\\"), ('\\"', b'"'), ("\\'", b"'")):
            cases.append(("simple", e, b))
        for raw in ("\n", "\t", "'", ";", "{", "}", "#", "\u00e9", "\uffc2", "x", "\\\\x41"):
            cases.append(("raw", raw, lit_decode(raw)))
        for cp in (0x0100, 0x0141, 0x1234, 0x20AC, 0xFF00, 0xFFC2, 0x2028):
            # \uHHHH names the character U+HHHH: the escape decodes like the character itself, typed raw in the literal
            cases.append(("uHHHH-as-character", "\\u%04x" % cp, lit_decode(chr(cp))))
        for bad in ("AB\\x4", "zz\\xzz", "q\\u00", "\\u12", "abc\\xg1", "\\x", "k\\u", "\\uzzzz"):
            check_case({"op": "after_refusal", "bad": bad, "then": [("", b""), ("ok", b"ok"), ("\\x41", b"A")]}, ctx)
        ctxs = list(CONTEXTS)
        i = 0
        for kind_, esc, val in cases:
            for pos, (pre, suf) in (("start", ("", "zz")), ("middle", ("a", "b")), ("end", ("zz", "")), ("alone", ("", ""))):
                cx = ctxs[i % 3]
                i += 1
                check_case({"op": "escape", "text": pre + esc + suf, "want": pre.encode() + val + suf.encode(), "context": cx,
                            "kind": kind_, "pos": pos, "as_dict": shard["as_dict"] and i % 7 == 0}, ctx)
    elif kind == "random_parser":
        for _ in range(shard["n"]):
            if ctx.out_of_time():
                break
            ln = rng.randrange(0, 65)
            data = rng.randbytes(ln) if rng.random() < 0.5 else b"".join(rng.choice(SYNTAX + [b"'", b"a", b"\xff", b"\x00"]) for _ in range(ln))
            check_case({"op": "parser", "data": data, "context": rng.choice(list(CONTEXTS)), "as_dict": rng.random() < 0.1}, ctx)
    else:
        raise ValueError(kind)


LEVEL_TEXT = (
    "Exploration, exhaustive on the small spaces the statement names: all 65 793 byte strings of length <= 2 go through "
    "value_to_string/string_token_to_bytes and an own literal decoder; every string up to length 3 (thorough: 4) over "
    "the nine syntax-relevant symbols and every 1-byte (thorough: 2-byte) string is embedded in three statement contexts "
    "and parsed by the real grammar, where a parse-tree monitor checks it is exactly one STRING token and that the "
    "following sentinel statement is intact; all \\xHH / \\u00HH / simple escapes are checked at start, middle and end."
)
LEVEL_NOTE = "Exhaustive for the enumerated spaces, sampled beyond; trusted base: the own literal decoder, lark's tree API."
TECHNIQUE = "reference-model runtime monitor (own literal decoder) + parse-tree monitor with sentinel statement, exhaustive over short strings"
