"""C14 - a parsed beacon configuration is an immutable value.

Monitors over use-histories of one configuration object:
  (1) frame monitor  - canonical deep snapshot of everything observable about the configuration after
      every operation, compared with the snapshot of a never-used twin built from the same bytes;
  (2) history independence - each operation's normalised result equals the result of the same operation on
      a fresh twin;
  (3) mutation attempts on the four mappings must raise and change nothing;
  (4) icontract frame condition on HttpDataTransform.__init__ (caller's step list unchanged)."""

from __future__ import annotations

import enum
import random

from vf import contracts, core, repotests
from vf.ref import config as C
from vf.ref import crypto as R
from vf.ref import tlv

ID = "C14"
LEVEL = "exploration"
RULE = (
    "a case is (configuration bytes, history of 1..25 operations drawn with repetition from: the four cached views, "
    "settings_map variants, every derived property, C2Http construction with each key variant, client dry-run, profile "
    "generation + text, transform/recover through the get/post/response transforms of the decoder built earlier in the "
    "history, mutation attempts ([]=, del, update, clear, setdefault, pop) on each mapping). Configurations come from the "
    "reference builder and from the HTTP sample beacons. Non-trivial: history containing at least one decoder/client/"
    "profile construction followed by a later read. Distinct = distinct (configuration, history)."
)
ASSUMPTIONS = [
    "a caller mutating a list it obtained from a view is not an operation of the statement (only the listed uses are)",
    "results of randomised operations (mask bytes, random host choice) are compared under the same PRNG seed",
]
REQUIRED_MONITORS = ["frame", "history.independence", "mutation.rejected", "HttpDataTransform.init.frame"]

VIEWS = ["settings", "settings_by_index", "raw_settings", "raw_settings_by_index"]
PROPS = ["domain_uri_pairs", "uris", "domains", "submit_uri", "killdate", "protocol", "port", "watermark", "is_trial", "version",
         "public_key", "sleeptime", "jitter", "setting_enums", "max_setting_enum"]


def canon(o):
    if isinstance(o, (bytes, bytearray)):
        return ("b", bytes(o).hex())
    if isinstance(o, bool) or o is None:
        return ("k", repr(o))
    if isinstance(o, enum.Enum):
        return ("e", int(o.value))
    if isinstance(o, int):
        return ("i", int(o))
    if isinstance(o, float):
        return ("f", repr(o))
    if isinstance(o, str):
        return ("s", str(o))
    if isinstance(o, (list, tuple)):
        fields = getattr(o, "_fields", None)
        return ("l" if isinstance(o, list) else "t", tuple(canon(x) for x in o)) if not fields else ("nt", tuple((f, canon(getattr(o, f))) for f in fields))
    if hasattr(o, "items"):
        return ("d", tuple((canon(k), canon(v)) for k, v in o.items()))
    if hasattr(o, "index") and hasattr(o, "length") and hasattr(o, "value") and hasattr(o, "type"):
        return ("setting", canon(o.index), canon(o.type), int(o.length), canon(bytes(o.value)))
    return ("r", repr(o))


def snapshot(cfg):
    out = [("config_block", canon(cfg.config_block)), ("settings_tuple", canon(list(cfg.settings_tuple))),
           ("xorkey", canon(cfg.xorkey)), ("xorencoded", canon(cfg.xorencoded)), ("arch", canon(cfg.architecture)),
           ("stamps", canon((cfg.pe_compile_stamp, cfg.pe_export_stamp)))]
    for v in VIEWS:
        out.append((v, canon(getattr(cfg, v))))
    for p in PROPS:
        try:
            val = getattr(cfg, p)
            out.append((p, canon(str(val) if p == "version" else val)))
        except Exception as e:  # noqa: BLE001
            out.append((p, ("exc", type(e).__name__)))
    return out


def diff(a, b):
    for (ka, va), (kb, vb) in zip(a, b):
        if va != vb:
            if va[0] == "d" and vb[0] == "d":  # drill down to the first differing entry of a mapping
                for (k1, v1), (k2, v2) in zip(va[1], vb[1]):
                    if (k1, v1) != (k2, v2):
                        return f"{ka}[{k1[1]}]: {core.short(repr(v1), 300)} (used) vs {core.short(repr(v2), 300)} (never used)"
            return f"{ka}: {core.short(repr(va), 300)} (used) vs {core.short(repr(vb), 300)} (never used)"
    return None


# ---- operations ------------------------------------------------------------------------------------------------
def norm_transform(t):
    return (canon(list(t.tsteps)), canon(list(t.rsteps)))


_blobs = {}


def op_run(op, cfg, state, seed, keyname):
    """Executes one operation on cfg; returns its normalised result.  state = objects created earlier in this history."""
    from dissect.cobaltstrike import c2, c2profile, client

    kind = op[0]
    random.seed(seed)
    if kind == "view":
        return canon(getattr(cfg, op[1]))
    if kind == "map":
        return canon(cfg.settings_map(index_type=op[1], pretty=op[2], parse=op[3]))
    if kind == "prop":
        v = getattr(cfg, op[1])
        return canon(str(v) if op[1] == "version" else v)
    if kind == "c2http":
        key = R.load_key(keyname) if keyname else None
        rand = b"0123456789abcdef"
        if op[1] == "rsa" and key is not None:
            h = c2.C2Http(cfg, rsa_private_key=key)
        elif op[1] == "aes_rand":
            h = c2.C2Http(cfg, aes_rand=rand)
        else:
            h = c2.C2Http(cfg, aes_key=b"K" * 16, hmac_key=b"H" * 16 if op[1] == "aes_hmac" else None, verify_hmac=op[1] == "aes_hmac")
        state["c2http"] = h
        return (canon(h.get_uris), canon(h.get_verb), canon(h.submit_uri), canon(h.submit_verb), norm_transform(h.transform_get),
                norm_transform(h.transform_submit), norm_transform(h.transform_response))
    if kind == "client":
        # one client object per history, set up again and again under changing identities: every set-up is what a new client
        # gives for that identity (session keys of the decoder it talks through included)
        c = state.get("client")
        if c is None:
            c = state["client"] = client.HttpBeaconClient()
        bid = 1234 + seed % 1000
        c.run(cfg, dry_run=True, beacon_id=bid, user="u", computer="c", process="p.exe")
        state["c2http"] = c.c2http
        want_keys = tuple(c2.BeaconKeys.from_aes_rand(c.aes_rand))[:2]
        return (c.beacon_id, c.task_url, c.callback_url, c.user_agent, c.host_header, c.sleeptime, c.jitter, canon(c.get_verb), canon(c.submit_verb),
                norm_transform(c.c2http.transform_response), (c.aes_key, c.hmac_key) == want_keys, tuple(c.c2http.beacon_keys)[:2] == want_keys)
    if kind == "profile":
        return ("s", c2profile.C2Profile.from_beacon_config(cfg).as_text())
    if kind == "transform":
        h = state.get("c2http")
        if h is None:
            h = c2.C2Http(cfg, aes_key=b"K" * 16)
            state["c2http"] = h
        which = op[1]
        t = {"get": h.transform_get, "submit": h.transform_submit, "response": h.transform_response}[which]
        data = {"get": c2.C2Data(metadata=b"M" * 128), "submit": c2.C2Data(id=b"1234", output=b"O" * 48), "response": c2.C2Data(output=b"T" * 64)}[which]
        try:
            if len(op) > 2 and op[2] == "default-request":
                # without an initial request the message starts from nothing: the same as starting from an explicit empty one,
                # whatever this or another transform has produced before
                random.seed(seed)
                req = t.transform(data)
                random.seed(seed)
                ref = t.transform(data, c2.HttpRequest(method=b"", uri=b"", params={}, headers={}, body=b""))
                if canon(req) != canon(ref):
                    return ("DEFAULT-REQUEST-DIFFERS", canon(req), canon(ref))
            else:
                req = t.transform(data, c2.HttpRequest(method=b"GET", uri=b"", params={}, headers={b"Host": b"h"}, body=b""))
            res = [canon(req)]
            http = req if which != "response" else c2.HttpResponse(status=200, headers=dict(req.headers), reason=b"OK", body=req.body)
            back = t.recover(http)
            res.append(canon(back))
        except Exception as e:  # noqa: BLE001
            return ("exc", type(e).__name__, str(e)[:80])
        return tuple(res)
    if kind == "session":
        # a complete little session through a FRESH RSA-only decoder built from this configuration: the check-in (metadata,
        # from which the decoder has to derive the session keys) followed by a task response.  What an earlier decoder
        # of the same configuration has seen must not matter.
        key = R.load_key(keyname)
        h = c2.C2Http(cfg, rsa_private_key=key)
        aes_rand = bytes((seed + i) & 0xFF for i in range(16)) if op[1] == "varying" else b"fedcba9876543210"
        try:
            md = c2.BeaconMetadata(magic=0xBEEF, size=0, aes_rand=aes_rand, ansi_cp=1252, oem_cp=437, bid=1234, pid=42, port=0, flag=4, ver_major=6,
                                   ver_minor=2, ver_build=9200, ptr_x64=0, ptr_gmh=0, ptr_gpa=0, ip=0x0100007F, info=b"HOST\tuser\tp.exe")
            # a beacon sends the very same encrypted blob at every check-in (PKCS#1 padding is random: encrypt once, keep it)
            blob = _blobs.get((keyname, aes_rand))
            if blob is None:
                blob = _blobs[(keyname, aes_rand)] = c2.encrypt_metadata(md, h.pub)
            req = h.transform_get.transform(c2.C2Data(metadata=blob), c2.HttpRequest(method=h.get_verb, uri=h.get_uris[0], params={}, headers={}, body=b""))
            random.seed(seed)
            first = [type(p).__name__ + ":" + (bytes(p.aes_rand).hex() if hasattr(p, "aes_rand") else "") for p in h.iter_recover_http(req)]
            keys = c2.BeaconKeys.from_aes_rand(aes_rand)
            task = c2.TaskPacket(epoch=1, total_size=12, command=c2.c2struct.BeaconCommand(4), size=4, data=b"\0\0\0d")
            enc = c2.encrypt_packet(task.dumps(), **keys._asdict())
            out = h.transform_response.transform(c2.C2Data(output=enc.ciphertext + enc.signature), c2.HttpRequest(method=b"", uri=b"", params={}, headers={}, body=b""))
            resp = c2.HttpResponse(status=200, headers=dict(out.headers), reason=b"OK", body=out.body)
            second = [(type(p).__name__, int(p.command), bytes(p.data)) for p in h.iter_recover_http(resp)]
        except Exception as e:  # noqa: BLE001
            return ("exc", type(e).__name__, str(e)[:120])
        return (tuple(first), tuple(second))
    if kind == "mutate":
        how = op[2]
        if op[1].startswith("map:"):
            # a mapping requested directly from settings_map() instead of through the cached properties
            _, it, pretty = op[1].split(":")
            view = cfg.settings_map(index_type=it, pretty=pretty == "pretty")
            if not how.startswith("value_"):
                how = "value_append"
        else:
            view = getattr(cfg, op[1])
        key = next(iter(view), None)
        if how == "value_bytes":
            # byte values handed out by the mappings must be immutable bytes objects, not something with in-place operations
            for k in view:
                v = view[k]
                if not isinstance(v, (bytes, int, str, list, tuple)) and v is not None and hasattr(v, "extend"):
                    try:
                        v.extend(b"!")
                    except (TypeError, AttributeError) as e:
                        return ("rejected", type(e).__name__)
                    return ("ACCEPTED", f"{how} on {type(v).__name__} value of {k}")
            return ("rejected", "all byte values are immutable")
        if how.startswith("value_"):
            # mutation through a value handed out by the mapping: the step lists of the structured settings
            lkeys = [k for k in view if isinstance(view[k], list)]
            if not lkeys:
                return ("rejected", "no list value")
            key = lkeys[seed % len(lkeys)]
            if how == "value_fill_empty":
                # specifically a list that is empty (no sleep-mask sections, no BeaconGate APIs, an empty program ...)
                empties = [k for k in lkeys if not view[k]]
                if not empties:
                    return ("rejected", "no empty list value")
                key = empties[seed % len(empties)]
        try:
            if how == "value_fill_empty":
                view[key].append(("mask", True))
                view[key].extend(["Sleep", "Core"])
            elif how == "value_iadd":
                view[key] += [("mask", True)]
            elif how == "value_append":
                view[key].append(("mask", True))
            elif how == "value_reverse":
                if len(view[key]) < 2:
                    return ("rejected", "nothing to reverse")
                view[key].reverse()
            elif how == "value_clear":
                if not view[key]:
                    return ("rejected", "already empty")
                view[key].clear()
            elif how == "value_setitem":
                if not view[key]:
                    return ("rejected", "already empty")
                view[key][0] = ("mask", True)
            elif how == "value_heap":
                import heapq

                heapq.heappush(view[key], ("append", 4))
                heapq.heapify(view[key])
            elif how == "value_reinit":
                view[key].__init__([("mask", True)])
            elif how == "setitem":
                view[key] = 1
            elif how == "delitem":
                del view[key]
            elif how == "update":
                view.update({key: 1})
            elif how == "clear":
                view.clear()
            elif how == "setdefault":
                view.setdefault("X", 1)
            elif how == "pop":
                view.pop(key)
        except (TypeError, AttributeError) as e:
            return ("rejected", type(e).__name__)
        if how.startswith("value_") and how != "value_bytes":
            # a value handed out by a mapping may be the caller's own copy: what counts is that the configuration is unchanged,
            # which the frame monitor judges right after this operation
            return ("rejected", "no effect on the configuration required")
        return ("ACCEPTED", how)
    raise ValueError(op)


_samples = {}


def sample_block(name):
    from dissect.cobaltstrike import beacon
    from vf.props import c08

    if name not in _samples:
        raw = c08.load_sample(name)
        if raw is None:
            _samples[name] = None
        else:
            c = beacon.BeaconConfig.from_bytes(raw, xor_keys=[b"\x69", b"\x2e", b"\xaf", b"\xcc"])
            _samples[name] = bytes(c.config_block)
    return _samples[name]


def check_case(case, ctx):
    if case.get("op") == "repo_test":
        repotests.run(ctx, ['tests/test_c2.py', 'tests/test_client.py'], [contracts.install_c2], {"HttpDataTransform.init.frame": "HttpDataTransform.init.frame"})
        return
    from dissect.cobaltstrike import beacon

    contracts.install_c2()
    contracts.take()
    block = case["block"]
    keyname = case["keyname"]
    before = contracts.evaluations["HttpDataTransform.init.frame"]
    pristine = snapshot(beacon.BeaconConfig(block))
    cfg = beacon.BeaconConfig(block)
    state = {}
    try:
        return _run_history(case, ctx, cfg, state, pristine, block, keyname, beacon)
    finally:
        ctx.mon("HttpDataTransform.init.frame", contracts.evaluations["HttpDataTransform.init.frame"] - before)


def _run_history(case, ctx, cfg, state, pristine, block, keyname, beacon):
    for i, op in enumerate(case["ops"]):
        op = tuple(op)
        seed = case["seed"] + i
        try:
            got = op_run(op, cfg, state, seed, keyname)
            gexc = None
        except Exception as e:  # noqa: BLE001
            got, gexc = None, (type(e).__name__, str(e)[:100])
        if isinstance(got, tuple) and got and got[0] == "DEFAULT-REQUEST-DIFFERS":
            ctx.violation("history.independence", f"op#{i} {op}: transform() without an initial request gives {core.short(repr(got[1]), 200)}, from an explicit empty request {core.short(repr(got[2]), 200)}", case)
            return
        # (3)
        if op[0] == "mutate":
            ctx.mon("mutation.rejected")
            if gexc is not None or got[0] != "rejected":
                ctx.violation("mutation.rejected", f"op#{i} {op}: mutation attempt was not rejected ({got or gexc})", case)
                return
        # (1)
        ctx.mon("frame")
        d = diff(snapshot(cfg), pristine)
        if d:
            ctx.violation("frame", f"after op#{i} {op} the configuration differs from a never-used twin: {d}", case)
            return
        br = contracts.take()
        if br:
            ctx.violation(br[0][0], f"op#{i} {op}: {br[0][1]}", case)
            return
        # (2)
        if op[0] != "mutate":
            ctx.mon("history.independence")
            twin = beacon.BeaconConfig(block)
            try:
                want = op_run(op, twin, {}, seed, keyname)
                wexc = None
            except Exception as e:  # noqa: BLE001
                want, wexc = None, (type(e).__name__, str(e)[:100])
            if (got, gexc) != (want, wexc):
                ctx.violation("history.independence", f"op#{i} {op} after {i} earlier uses gives {core.short(repr(got or gexc), 300)}; on a fresh configuration {core.short(repr(want or wexc), 300)}", case)
                return
    ops = [tuple(o) for o in case["ops"]]
    builders = [i for i, o in enumerate(ops) if o[0] in ("c2http", "client", "profile", "transform", "session")]
    nt = bool(builders) and builders[0] < len(ops) - 1
    ctx.ok(fp=(block, repr(ops)), nontrivial=nt, case={"source": case["source"], "ops": ops, "block_len": len(block)},
           classes=(f"src:{case['source']}", f"len:{'1-5' if len(ops) <= 5 else '6-25'}", *{f"op:{o[0]}" for o in ops}))


def gen_ops(rng, has_rsa, n):
    ops = []
    for _ in range(n):
        r = rng.random()
        if r < 0.22:
            ops.append(("view", rng.choice(VIEWS)))
        elif r < 0.3:
            ops.append(("map", rng.choice(["name", "const", "enum"]), rng.random() < 0.5, rng.random() < 0.5))
        elif r < 0.45:
            ops.append(("prop", rng.choice(PROPS)))
        elif r < 0.62:
            ops.append(("c2http", rng.choice((["rsa"] if has_rsa else []) + ["aes_rand", "aes_hmac", "aes"])))
        elif r < 0.7:
            ops.append(("client",))
        elif r < 0.74:
            ops.append(("profile",))
        elif r < 0.86:
            ops.append(("transform", rng.choice(["get", "submit", "response"]), rng.choice(["explicit", "default-request"])))
        elif r < 0.9 and has_rsa:
            ops.append(("session", rng.choice(["fixed", "fixed", "varying"])))
        else:
            ops.append(("mutate", rng.choice(VIEWS + ["map:name:pretty", "map:const:pretty", "map:enum:pretty"]), rng.choice(["setitem", "delitem", "update", "clear", "setdefault", "pop", "value_iadd", "value_append", "value_reverse", "value_clear", "value_setitem", "value_bytes", "value_heap", "value_reinit", "value_fill_empty", "value_fill_empty"])))
    # every history ends with a caller that fills the empty lists it was handed (both pretty views), followed by one more read
    ops += [("mutate", "settings", "value_fill_empty"), ("view", "settings_by_index"), ("mutate", "settings_by_index", "value_fill_empty"), ("profile",)]
    return ops


def plan(tier, seed):
    q = tier == "quick"
    shards = [{"kind": "built", "n": 25 if q else 1300} for _ in range(12)]
    shards += [{"kind": "samples", "n": 12 if q else 500} for _ in range(4)]
    shards.append({"kind": "repo_tests"})
    for s in shards:
        s["budget_s"] = 50 if q else 2400
        s["timeout_s"] = 300 if q else 5400
    return shards


def run_shard(shard, ctx):
    if shard["kind"] == "repo_tests":
        repotests.run(ctx, ['tests/test_c2.py', 'tests/test_client.py'], [contracts.install_c2], {"HttpDataTransform.init.frame": "HttpDataTransform.init.frame"})
        return
    rng = ctx.rng
    if shard["kind"] == "built":
        for _ in range(shard["n"]):
            if ctx.out_of_time():
                break
            keyname = rng.choice(["rsa1024_a", "rsa2048_a"])
            settings, _ = C.build_http_config(rng, keyname=keyname, extras=rng.random() < 0.7, allow_uri=rng.random() < 0.3)
            block = tlv.encode(settings) + b"\0\0"
            if rng.random() < 0.2:
                # a setting stated twice (dictionary semantics: first position, last value) with other settings after it
                k = rng.randrange(0, max(1, len(settings) - 2))
                i_, t_, v_ = settings[k]
                if t_ in (1, 2) and i_ not in (9,):
                    dup = (i_, t_, bytes(len(v_) - 1) + bytes([rng.randrange(1, 255)]))
                    pos = rng.randrange(k + 1, len(settings))
                    settings = settings[:pos] + [dup] + settings[pos:]
                    block = tlv.encode(settings) + b"\0\0"
            if rng.random() < 0.15:
                # the over-long User-Agent form: a 128-byte field without NUL, continued up to the NUL that follows it
                k = next((i for i, st in enumerate(settings) if st[0] == 9), None)
                if k is not None:
                    ua = bytes(rng.choice(b"Mozilla/5.0 (Windows NT; Trident) abcdefghijklmnop") for _ in range(128 + rng.randrange(1, 120)))
                    block = tlv.encode(settings[:k]) + tlv.S(9, 3, ua[:128]) + ua[128:] + b"\0" + tlv.encode(settings[k + 1 :]) + b"\0\0"
            check_case({"block": block, "keyname": keyname, "source": "builder", "ops": gen_ops(rng, True, rng.randrange(1, 26)), "seed": rng.getrandbits(30)}, ctx)
    else:
        names = [n for n in ("x86", "x64", "custom", "c2test", "puny") if sample_block(n) is not None]
        if not names:
            ctx.notes["samples"] = "sample beacons not present"
            return
        for _ in range(shard["n"]):
            if ctx.out_of_time():
                break
            name = rng.choice(names)
            check_case({"block": sample_block(name), "keyname": None, "source": f"sample:{name}", "ops": gen_ops(rng, False, rng.randrange(1, 26)),
                        "seed": rng.getrandbits(30)}, ctx)


LEVEL_TEXT = (
    "Exploration over use-histories: for hundreds (thorough: ~18 000) of random histories of up to 25 uses of one "
    "configuration object (views, properties, decoder construction with every key variant, client dry-run, profile "
    "generation, transform/recover, mutation attempts) a frame monitor compares a canonical deep snapshot of the used "
    "object with a never-used twin after every operation, every operation's result is compared with the same operation "
    "on a fresh twin, and an icontract frame condition watches every HttpDataTransform construction."
)
LEVEL_NOTE = "Held on the histories explored; trusted base: the canonical snapshot function (covers config_block, settings_tuple, the four views, all derived properties)."
TECHNIQUE = "history workload + frame monitor (deep snapshot vs never-used twin after every op) + twin-comparison of results; icontract frame contract"
