"""C04 - HTTP data transforms follow the Malleable C2 wire format and are invertible.

Monitors per generated (program, payload, initial request):
  (1) lib.recover(lib.transform(x)) == x
  (2) lib.transform(x) == ref.encode(x) (same mask bytes) and ref.decode(lib.transform(x)) == x
  (3) lib.recover(ref.encode(x)) == x   (unpadded and padded base64url)
  (4) icontract frame condition: the step list handed to HttpDataTransform is never modified."""

from __future__ import annotations

import random

from vf import contracts, core
from vf.ref import codec

ID = "C04"
LEVEL = "exploration"
RULE = (
    "a case is (program, payload(s), initial request, mask seed). Client-form programs: 1..3 build blocks "
    "(metadata | id+output in either order | output), each with 0..10 encoder steps drawn with repetition from "
    "base64, base64url, netbios, netbiosu, mask, append, prepend (arguments: empty, short binary, long), one "
    "termination (print, header, parameter, uri-append; sinks distinct), static _HEADER/_HOSTHEADER/_PARAMETER "
    "anywhere. Server-form programs: recover programs with integer lengths (print + encoders), run with the implicit "
    "output BUILD. Payload lengths 0,1,2,3,15,16,17,40 and random up to 4 KB; initial request empty or pre-populated. "
    "Non-trivial: at least one encoder step or a non-empty initial request. Distinct = distinct (program, payload, request)."
)
ASSUMPTIONS = [
    "programs are well formed: every build block ends in exactly one termination and sinks are distinct",
    "static parameter keys contain no '='; static header keys contain no ': '",
    "the reference emits unpadded base64url and accepts both forms (what Cobalt Strike emits cannot be established offline)",
]
REQUIRED_MONITORS = ["lib->lib", "lib->ref", "wire.equal", "ref->lib", "reuse", "HttpDataTransform.init.frame"]

KF_URI = "uri-append-base-uri"


def _to_lib_steps(prog):
    return [(op, arg) for op, arg in prog]


def _mk_request(c2mod, req):
    return c2mod.HttpRequest(method=req["method"], uri=req["uri"], params=dict(req["params"]), headers=dict(req["headers"]), body=req["body"])


def _msg_of(http):
    return {"uri": bytes(http.uri), "params": dict(http.params), "headers": dict(http.headers), "body": bytes(http.body)}


def judge(case, c2mod, ctx=None):
    """Runs all monitors on one case; returns None or (monitor, message)."""
    form = case["form"]
    payload = case["c2"]
    req = case["req"]
    seed = case["seed"]
    names = list(payload)

    def note(m):
        if ctx is not None:
            ctx.mon(m)

    if form == "client":
        prog = [tuple(s) for s in case["prog"]]
        steps = _to_lib_steps(prog)
        snapshot = list(steps)
        try:
            if case.get("reversed_ctor"):
                # the same program handed over in recover order
                steps = steps[::-1]
                snapshot = list(steps)
                t = c2mod.HttpDataTransform(steps, reverse=True)
            else:
                t = c2mod.HttpDataTransform(steps)
        except Exception as e:  # noqa: BLE001
            return "construct.exception", f"{type(e).__name__}: {e}"
        # a field that is not set at all (C2Data's default None) is an empty payload
        c2data = c2mod.C2Data(**{n: v for n, v in payload.items() if n not in case.get("unset", ())})
        ref_prog = prog
        base_uri = req["uri"]
    elif form == "implicit":
        # profile-order steps of one block; the BUILD step is supplied through the constructor argument
        prog = [tuple(s) for s in case["prog"]]
        steps = _to_lib_steps(prog)
        snapshot = list(steps)
        try:
            t = c2mod.HttpDataTransform(steps, build=names[0])
        except Exception as e:  # noqa: BLE001
            return "construct.exception", f"{type(e).__name__}: {e}"
        c2data = c2mod.C2Data(**payload)
        ref_prog = [("BUILD", names[0])] + prog
        base_uri = req["uri"]
    else:
        rprog = [tuple(s) for s in case["prog"]]
        steps = list(rprog)
        snapshot = list(steps)
        try:
            t = c2mod.HttpDataTransform(steps, reverse=True, build="output")
        except Exception as e:  # noqa: BLE001
            return "construct.exception", f"{type(e).__name__}: {e}"
        c2data = c2mod.C2Data(**payload)
        ref_prog = [("BUILD", "output")] + [
            (op.upper(), (b"X" * arg if isinstance(arg, int) and not isinstance(arg, bool) else arg)) for op, arg in reversed(rprog)
        ]
        base_uri = req["uri"]
    # (1)+(2): library transform
    random.seed(seed)
    try:
        if case.get("default_request"):
            # no initial request at all: the library's own default (must be a fresh empty request on every call)
            http = t.transform(c2data)
        else:
            http = t.transform(c2data, _mk_request(c2mod, req))
    except Exception as e:  # noqa: BLE001
        return "transform.exception", f"{type(e).__name__}: {e}"
    got_msg = _msg_of(http)
    note("wire.equal")
    # whether Cobalt Strike pads base64url cannot be established offline: either form is accepted, consistently
    for pad in (False, True):
        want_msg = codec.ref_encode(ref_prog, payload, req, seed, b64url_pad=pad)
        if got_msg == {k: want_msg[k] for k in ("uri", "params", "headers", "body")}:
            break
    if got_msg != {k: want_msg[k] for k in ("uri", "params", "headers", "body")} or bytes(http.method) != req["method"]:
        d = [k for k in ("uri", "params", "headers", "body") if got_msg[k] != want_msg[k]]
        k = d[0] if d else "method"
        return "wire.equal", f"produced message differs from the Malleable C2 wire format in {d or ['method']}: got {core.short(got_msg.get(k), 100)} want {core.short(want_msg.get(k), 100)}"
    note("lib->ref")
    try:
        dec = codec.ref_decode(ref_prog, got_msg, base_uri)
    except Exception as e:  # noqa: BLE001
        return "lib->ref", f"reference decoder cannot decode the library's message: {type(e).__name__}: {e}"
    if any(dec.get(n) != payload[n] for n in names):
        return "lib->ref", f"reference decodes {core.short(dec)} from the library's message, sent {core.short(payload)}"

    def recover(msg_http):
        if form == "server":
            msg_http = c2mod.HttpResponse(status=200, headers=dict(msg_http.headers), reason=b"OK", body=msg_http.body)
        return t.recover(msg_http)

    note("lib->lib")
    try:
        back = recover(http)
    except Exception as e:  # noqa: BLE001
        return "lib->lib", f"recover(transform(x)) raised {type(e).__name__}: {e}"
    got = {n: getattr(back, n) for n in names}
    if got != payload:
        return "lib->lib", f"recover(transform(x)) = {core.short(got)} != x = {core.short(payload)}"
    others = {n: getattr(back, n) for n in ("output", "metadata", "id") if n not in names}
    if any(v is not None for v in others.values()):
        return "lib->lib", f"recover reports data that was never sent: {core.short(others)}"
    # (3) reference-encoded message, both base64url paddings
    for pad in (False, True):
        note("ref->lib")
        m = codec.ref_encode(ref_prog, payload, req, seed ^ 0x5A5A, b64url_pad=pad)
        h = c2mod.HttpRequest(method=req["method"], uri=m["uri"], params=m["params"], headers=m["headers"], body=m["body"])
        try:
            back = recover(h)
        except Exception as e:  # noqa: BLE001
            return "ref->lib", f"recover(reference message, base64url padded={pad}) raised {type(e).__name__}: {e}"
        got = {n: getattr(back, n) for n in names}
        if got != payload:
            return "ref->lib", f"recover(reference message) = {core.short(got)} != {core.short(payload)} (base64url padded={pad})"
    # a transform object is reusable: a second payload through the same object must not see anything of the first,
    # the initial request handed in belongs to the caller (frame condition), and a message already produced must not change
    note("reuse")
    payload2 = {n: bytes(reversed(v)) + b"#2" for n, v in payload.items()}
    shared = _mk_request(c2mod, req)
    shared_before = _msg_of(shared)
    try:
        random.seed(seed + 2)
        first = t.transform(c2data, shared)
        first_before = _msg_of(first)
        random.seed(seed + 1)
        http2 = t.transform(c2mod.C2Data(**payload2), shared)
        back2 = recover(http2)
    except Exception as e:  # noqa: BLE001
        return "reuse", f"second use of the same transform object raised {type(e).__name__}: {e}"
    if _msg_of(shared) != shared_before:
        return "reuse.frame", f"transform() modified the initial request it was given: {core.short(shared_before)} -> {core.short(_msg_of(shared))}"
    if _msg_of(first) != first_before:
        return "reuse.frame", "a message produced earlier changed when the same initial request was transformed again"
    try:
        pass
    except Exception as e:  # noqa: BLE001
        return "reuse", f"second use of the same transform object raised {type(e).__name__}: {e}"
    want2 = None
    for pad in (False, True):
        w = codec.ref_encode(ref_prog, payload2, req, seed + 1, b64url_pad=pad)
        if _msg_of(http2) == {k: w[k] for k in ("uri", "params", "headers", "body")}:
            want2 = w
    if want2 is None or {n: getattr(back2, n) for n in names} != payload2:
        return "reuse", f"second use of the same transform object: message or recovered payload wrong ({core.short({n: getattr(back2, n) for n in names})} for {core.short(payload2)})"
    if steps != snapshot:
        return "frame", f"the caller's step list was modified: {snapshot!r} -> {steps!r}"
    br = contracts.take()
    if br:
        return br[0]
    return None


def check_case(case, ctx):
    from dissect.cobaltstrike import c2 as c2mod

    contracts.install_c2()
    contracts.take()
    before = contracts.evaluations["HttpDataTransform.init.frame"]
    r = judge(case, c2mod, ctx)
    ctx.mon("HttpDataTransform.init.frame", contracts.evaluations["HttpDataTransform.init.frame"] - before)
    prog = case["prog"]
    has_uri = any(s[0] in ("URI_APPEND",) for s in prog)
    if r:
        key = None
        if has_uri and case["req"]["uri"]:
            # counterfactual: same program and payload, empty initial URI
            alt = dict(case)
            alt["req"] = dict(case["req"], uri=b"")
            contracts.take()
            if judge(alt, c2mod) is None:
                key = KF_URI
        ctx.violation(r[0], r[1], case, key=key)
        return
    nenc = sum(1 for s in prog if s[0].upper() in codec.ENCODERS)
    nt = nenc > 0 or bool(case["req"]["uri"] or case["req"]["params"])
    terms = {s[0].upper() for s in prog if s[0].upper() in codec.TERMINATIONS}
    ctx.ok(fp=(repr(prog), repr(sorted(case["c2"].items())), repr(case["req"])), nontrivial=nt, case=case, classes=(
        f"form:{case['form']}", f"blocks:{sum(1 for s in prog if s[0] == 'BUILD') or 1}", f"enc:{min(nenc, 6)}",
        *(f"term:{t}" for t in terms), *(f"op:{s[0].upper()}" for s in prog if s[0].upper() in codec.ENCODERS + codec.STATIC),
        "emptyarg" if any(s[0].upper() in ("APPEND", "PREPEND") and s[1] in (b"", 0) for s in prog) else "noemptyarg",
        "req:populated" if case["req"]["uri"] else "req:default" if case.get("default_request") else "req:empty",
        "ctor:reverse" if case.get("reversed_ctor") else "ctor:plain", f"unset:{len(case.get('unset', ()))}"))


# ---- generators -----------------------------------------------------------------------------------------
def _arg(rng):
    r = rng.random()
    if r < 0.15:
        return b""
    if r < 0.6:
        return rng.randbytes(rng.randrange(1, 9))
    if r < 0.9:
        return bytes(rng.randrange(32, 127) for _ in range(rng.randrange(1, 40)))
    return rng.randbytes(rng.randrange(40, 400))


def gen_client_prog(rng, kinds):
    prog = []
    sinks = set()

    def static():
        op = rng.choice(codec.STATIC)
        if op == "_PARAMETER":
            return (op, b"p%d=" % rng.randrange(9) + bytes(rng.randrange(33, 127) for _ in range(rng.randrange(0, 6))).replace(b"=", b"-"))
        return (op, b"H%d: " % rng.randrange(9) + rng.choice([b"", b"v", b"a: b", rng.randbytes(4)]))

    for name in kinds:
        for _ in range(rng.choice([0, 0, 1, 2])):
            prog.append(static())
        prog.append(("BUILD", name))
        for _ in range(rng.choice([0, 1, 2, 3, 4, 6, 10])):
            op = rng.choice(codec.ENCODERS)
            prog.append((op, _arg(rng) if op in ("APPEND", "PREPEND") else True))
        while True:
            t = rng.choice(codec.TERMINATIONS)
            key = (t, None) if t in ("PRINT", "URI_APPEND") else (t, b"S%d" % rng.randrange(6))
            if key not in sinks:
                sinks.add(key)
                break
        prog.append((t, key[1] if key[1] is not None else True))
    for _ in range(rng.choice([0, 0, 1])):
        prog.append(static())
    return prog


def gen_server_prog(rng):
    prog = [("print", True)]
    for _ in range(rng.choice([0, 1, 2, 3, 5, 8])):
        op = rng.choice(["append", "prepend", "base64", "base64url", "netbios", "netbiosu", "mask"])
        prog.append((op, rng.choice([0, 1, 2, 84, 1522, rng.randrange(0, 4000)]) if op in ("append", "prepend") else True))
    return prog


def gen_payload(rng, prog=()):
    # netbios doubles and base64 grows by 4/3 per application: keep the largest intermediate below ~16 KB
    growth = 1.0
    for s in prog:
        op = s[0].upper()
        growth *= 2 if op in ("NETBIOS", "NETBIOSU") else 1.34 if op in ("BASE64", "BASE64URL") else 1
    cap = max(3, min(4096, int(16384 / growth)))
    if growth <= 1.4 and rng.random() < 0.004:
        # large outputs (a screenshot, a downloaded file): sizes around the 64 KB mark, where a block-wise codec would cut
        return rng.randbytes(rng.choice([65535, 65536, 65537, 70001]))
    return rng.randbytes(rng.choice([0, 1, 2, 3, 15, 16, 17, 40, 40, rng.randrange(0, cap + 1)]))


EMPTY_REQ = {"method": b"", "uri": b"", "params": {}, "headers": {}, "body": b""}


def gen_req(rng, form):
    if rng.random() < 0.45:
        return dict(EMPTY_REQ, params={}, headers={})
    return {
        "method": rng.choice([b"GET", b"POST"]),
        "uri": rng.choice([b"", b"/base", b"/submit.php", b"/a/b"]),
        "params": rng.choice([{}, {b"id": b"1"}, {b"S1": b"old"}]),
        "headers": rng.choice([{}, {b"User-Agent": b"x", b"Host": b"h"}, {b"S2": b"old"}]),
        "body": rng.choice([b"", b"old body"]),
    }


def plan(tier, seed):
    q = tier == "quick"
    return [{"kind": "progs", "n": 2000 if q else 120000, "budget_s": 50 if q else 1500, "timeout_s": 300 if q else 3600} for _ in range(16)]


def run_shard(shard, ctx):
    rng = ctx.rng
    for i in range(shard["n"]):
        if ctx.out_of_time():
            break
        r0 = rng.random()
        if r0 < 0.1:
            name = rng.choice(["metadata", "id", "output"])
            full = gen_client_prog(rng, [name])
            prog = [st for st in full if st[0] not in ("BUILD",) + tuple(codec.STATIC)]
            case = {"form": "implicit", "prog": prog, "c2": {name: gen_payload(rng, prog)}, "req": gen_req(rng, "client"), "seed": rng.getrandbits(32)}
        elif r0 < 0.8:
            kinds = rng.choice([["metadata"], ["id", "output"], ["output", "id"], ["output"], ["metadata", "id", "output"]])
            prog = gen_client_prog(rng, kinds)
            case = {"form": "client", "prog": prog, "c2": {k: gen_payload(rng, prog) for k in kinds}, "req": gen_req(rng, "client"), "seed": rng.getrandbits(32)}
            case["default_request"] = case["req"] == EMPTY_REQ and rng.random() < 0.6
            if rng.random() < 0.15:
                case["reversed_ctor"] = True
            if rng.random() < 0.15:
                case["unset"] = [k for k in kinds if rng.random() < 0.5]
                for k in case["unset"]:
                    case["c2"][k] = b""
        else:
            req = gen_req(rng, "server")
            sprog = gen_server_prog(rng)
            case = {"form": "server", "prog": sprog, "c2": {"output": gen_payload(rng, sprog)}, "req": req, "seed": rng.getrandbits(32)}
        check_case(case, ctx)


LEVEL_TEXT = (
    "Exploration with an independent encoder and decoder: for tens of thousands (thorough: ~2 million) of generated "
    "programs x payloads x initial requests the real HttpDataTransform is run in both directions against the reference "
    "codec - the produced message must be byte-identical to the reference encoding under the same mask bytes, the "
    "reference must decode the library's message, the library must decode reference messages (padded and unpadded "
    "base64url) - and an icontract frame condition watches the caller's step list on every construction."
)
LEVEL_NOTE = "Held on the programs explored; trusted base: the reference codec written from the Malleable C2 documentation."
TECHNIQUE = "reference-model runtime monitor in both directions (independent Malleable codec) + icontract frame condition; known finding attributed by counterfactual re-execution"
