"""C15 - pattern scanners report exactly the true occurrences.

Monitor: naive bytes.find / slice model run beside iter_find_needle and iter_artifactkit_payloads; the read
buffer size is varied through the module-global ``io`` proxy of dissect.cobaltstrike.utils."""

from __future__ import annotations

import io
import itertools
import struct

from vf import core

ID = "C15"
LEVEL = "exploration"
RULE = (
    "needle cases are (haystack, needle, read-buffer size, start offset, limit); the small spaces are enumerated "
    "(every haystack up to the length bound over {00,41} and {00,01,41}, every needle of 1..4 bytes over the same "
    "alphabet, buffer sizes 1..9, several starts/limits) and are distinct by construction; large random haystacks have "
    "needles planted across buffer boundaries. ArtifactKit cases are files with self-referential headers at chosen "
    "offsets (overlapping, truncated, with start/maxrange). Non-trivial: at least one true occurrence at or after the "
    "start offset (needle) / at least one satisfying header (ArtifactKit)."
)
ASSUMPTIONS = [
    "between two results the consumer may seek to the reported offset and read from the same file object, as the library's own find_beacon_config_bytes does (class 'consumer'); other concurrent use of the file object is not explored",
    "needles have length >= 1",
    "for a limit, the offset equal to the limit itself may or may not be reported (the statement only fixes both sides of it)",
]
REQUIRED_MONITORS = ["needle.model", "needle.limit", "artifact.model"]
EXHAUSTIVE_WHEN = ["needle_small_spaces"]


def true_occurrences(hay, needle, start):
    out = []
    p = hay.find(needle, start)
    while p != -1:
        out.append(p)
        p = hay.find(needle, p + 1)
    return out


class SegmentedFile(io.BytesIO):
    """a seekable file object over segmented storage: read(n) returns what is left of the current segment, i.e. fewer than n
    bytes although more data follows (io.RawIOBase semantics: only an EMPTY result means end of data)"""

    def __init__(self, data, segment):
        super().__init__(data)
        self._segment = segment

    def read(self, n=-1):
        if n is None or n < 0:
            return super().read()
        pos = self.tell()
        return super().read(min(n, (pos // self._segment + 1) * self._segment - pos))


def judge_needle(hay, needle, bs, start, limit, utils, pos=0, consumer=0, segment=0):
    """Returns None or (monitor, message).  pos: file position before the call (matters when start is None:
    'search from the current position').  consumer: n > 0 = after every result the caller seeks to the reported
    offset and reads n bytes from the same file object (what find_beacon_config_bytes does with n = 4096)."""
    core.set_buffer_size(bs)
    fh = SegmentedFile(hay, segment) if segment else io.BytesIO(hay)
    fh.seek(pos)
    s = pos if start is None else start
    try:
        if consumer:
            got = []
            for off in utils.iter_find_needle(fh, needle, start_offset=start, max_offset=limit):
                got.append(off)
                fh.seek(off)
                fh.read(consumer)
                if len(got) > len(hay) + 2:
                    return "needle.model", f"more results than positions with a reading consumer: {got[:10]}..."
        else:
            got = list(utils.iter_find_needle(fh, needle, start_offset=start, max_offset=limit))
    except Exception as e:  # noqa: BLE001
        return "needle.exception", f"{type(e).__name__}: {e}"
    truth = true_occurrences(hay, needle, s)
    if not limit:
        if got != truth:
            return "needle.model", f"reported {got} true {truth}"
        return None
    tset = set(truth)
    if any(g not in tset for g in got):
        return "needle.limit", f"limit={limit}: reported {got} contains a non-occurrence (true {truth})"
    if got != sorted(set(got)):
        return "needle.limit", f"limit={limit}: reported {got} not ascending/unique"
    must = [p for p in truth if p + len(needle) <= limit]
    gset = set(got)
    if any(p not in gset for p in must):
        return "needle.limit", f"limit={limit}: reported {got} misses occurrences entirely before the limit {must}"
    return None


def check_case(case, ctx):
    from dissect.cobaltstrike import artifact, utils

    op = case["op"]
    try:
        if op == "needle":
            hay, needle = case["hay"], case["needle"]
            ctx.mon("needle.limit" if case["limit"] else "needle.model")
            r = judge_needle(hay, needle, case["bs"], case["start"], case["limit"], utils, case.get("pos", 0), case.get("consumer", 0), case.get("segment", 0))
            if r:
                ctx.violation(r[0], f"hay={core.short(hay, 80)} needle={needle.hex()} bs={case['bs']} start={case['start']} pos={case.get('pos', 0)}: {r[1]}", case)
                return
            s = case.get("pos", 0) if case["start"] is None else case["start"]
            nt = hay.find(needle, s) != -1
            ctx.ok(fp=("n", hay, needle, case["bs"], case["start"], case["limit"], case.get("consumer", 0)), nontrivial=nt, case=case,
                   classes=("needle:limit" if case["limit"] else "needle:nolimit", "needle:consumer-reads" if case.get("consumer") else "needle:consumer-idle", f"needle:bs={case['bs'] if case['bs'] and case['bs'] < 10 else 'big'}",
                            "needle:leading-nul" if needle[:1] == b"\0" else "needle:other", f"needle:len={min(len(needle), 5)}"))
        elif op == "needle_block":
            _needle_block(case, ctx, utils)
        elif op == "artifact":
            _check_artifact(case, ctx, artifact)
        else:
            raise ValueError(op)
    finally:
        core.set_buffer_size(None)


def _needle_block(case, ctx, utils):
    alphabet = [bytes([b]) for b in case["alphabet"]]
    n = nt = 0
    needles = [b"".join(t) for ln in range(1, case["maxneedle"] + 1) for t in itertools.product(alphabet, repeat=ln)]
    for tail in itertools.product(alphabet, repeat=case["haylen"] - len(case["prefix"])):
        hay = case["prefix"] + b"".join(tail)
        L = len(hay)
        starts = sorted({None, 0, 1, 2, max(L - 1, 0)} - {x for x in (1, 2) if x > L}, key=lambda x: -1 if x is None else x)
        limits = sorted({0, 1, 3, L})
        for needle in needles:
            for bs in case["bss"]:
                for start in starts:
                    for limit in limits:
                        if limit and start:  # keep the product small: limits are combined with start None/0
                            continue
                        ctx.monitors["needle.limit" if limit else "needle.model"] += 1
                        # "from the current position": the file is positioned somewhere inside when no start is given
                        pos = (len(needle) + bs) % (L + 1) if start is None and not limit else 0
                        r = judge_needle(hay, needle, bs, start, limit, utils, pos)
                        if r:
                            c = {"op": "needle", "hay": hay, "needle": needle, "bs": bs, "start": start, "limit": limit, "pos": pos}
                            ctx.violation(r[0], f"hay={hay.hex()} needle={needle.hex()} bs={bs} start={start}: {r[1]}", c)
                            if ctx.nviol > 200:
                                return
                        n += 1
                        nt += hay.find(needle, pos if start is None else start) != -1
                        if not limit and start in (None, 0) and L >= 2:
                            # the same search with a consumer that reads at every reported offset
                            for cons in (1, 3):
                                ctx.monitors["needle.model"] += 1
                                r = judge_needle(hay, needle, bs, start, limit, utils, pos, cons)
                                if r:
                                    c = {"op": "needle", "hay": hay, "needle": needle, "bs": bs, "start": start, "limit": limit, "pos": pos, "consumer": cons}
                                    ctx.violation(r[0], f"hay={hay.hex()} needle={needle.hex()} bs={bs} start={start} consumer reads {cons}: {r[1]}", c)
                                    if ctx.nviol > 200:
                                        return
                                n += 1
    ctx.bulk(n, nt)


def spec_xor(data, key):
    if not key or not any(key):
        return data
    return bytes(b ^ key[i % len(key)] for i, b in enumerate(data))


def _check_artifact(case, ctx, artifact):
    data, start, maxrange = case["data"], case["start"], case["maxrange"]
    ctx.mon("artifact.model")
    core.set_buffer_size(case.get("bs"))  # whatever the scanner reads in blocks, it reads in blocks of this size
    fh = io.BytesIO(data)
    if case.get("fileobj") == "mmap" and data:
        # a memory-mapped file: the usual way to scan a large binary; its seek() returns None before Python 3.13
        import mmap

        fh = mmap.mmap(-1, len(data))
        fh.write(data)
        fh.seek(0)
    if start is None:
        fh.seek(case.get("pos", 0))
        s = case.get("pos", 0)
    else:
        s = start
    try:
        got = list(artifact.iter_artifactkit_payloads(fh, start_offset=start, maxrange=maxrange))
    except Exception as e:  # noqa: BLE001
        ctx.violation("artifact.exception", f"{type(e).__name__}: {e}", case)
        return
    truth = [p for p in range(s, len(data) - 3) if struct.unpack_from("<I", data, p)[0] == p + 16]
    offs = [g.offset for g in got]
    if maxrange is None:
        good = offs == truth
    else:
        must = [p for p in truth if p < maxrange]
        may = [p for p in truth if p <= maxrange]
        good = offs in (must, may)
    if not good:
        ctx.violation("artifact.model", f"offsets reported {offs}, headers satisfying u32(header)==offset+16: {truth} (start={s}, maxrange={maxrange})", case)
        return
    if start is not None:
        # the same scan once more on the same file object, whose position the first scan (and a reading consumer) has moved:
        # an explicit start offset - 0 included - does not depend on where the file object happens to be
        try:
            fh.seek(min(len(data), 1 + len(data) // 2))
            again = [g.offset for g in artifact.iter_artifactkit_payloads(fh, start_offset=start, maxrange=maxrange)]
        except Exception as e:  # noqa: BLE001
            ctx.violation("artifact.exception", f"second scan of the same file object: {type(e).__name__}: {e}", case)
            return
        if again != offs:
            ctx.violation("artifact.model", f"a second scan of the same file object (start={start}, maxrange={maxrange}) reports {again}, the first one {offs}", case)
            return
    for g in got:
        p = g.offset
        size = int.from_bytes(data[p + 4 : p + 8], "little")
        key = data[p + 8 : p + 12]
        hints = data[p + 12 : p + 20]
        enc = data[p + 20 : p + 20 + size]
        if (g.size, g.xorkey, g.hints) != (size, key, hints) or g.payload != spec_xor(enc, key):
            ctx.violation("artifact.payload", f"offset {p}: size/key/hints/payload differ from the header layout (size={g.size} want {size}, key={g.xorkey.hex()} want {key.hex()}, payload {core.short(g.payload, 40)} want {core.short(spec_xor(enc, key), 40)})", case)
            return
    ctx.ok(fp=("a", data, start, maxrange), nontrivial=bool(truth), case=case,
           classes=(f"artifact:n={min(len(truth), 3)}", "artifact:maxrange" if maxrange is not None else "artifact:nolimit",
                    "artifact:start=None" if start is None else "artifact:start", f"artifact:bs={case.get('bs')}", f"artifact:file={case.get('fileobj', 'bytesio')}"))


# ---- plan / generators -----------------------------------------------------------------------------
def plan(tier, seed):
    q = tier == "quick"
    shards = []
    if q:
        for ln in range(0, 9):
            shards.append({"kind": "needle_block", "alphabet": [0, 0x41], "haylen": ln, "prefix": b"", "maxneedle": 4, "bss": [1, 2, 3, 4, 5, 7]})
        for ln in range(0, 6):
            shards.append({"kind": "needle_block", "alphabet": [0, 1, 0x41], "haylen": ln, "prefix": b"", "maxneedle": 3, "bss": [1, 2, 3, 5]})
    else:
        for ln in range(0, 11):
            prefixes = [b""] if ln < 8 else [bytes(t) for t in itertools.product([0, 0x41], repeat=ln - 7)]
            for pf in prefixes:
                shards.append({"kind": "needle_block", "alphabet": [0, 0x41], "haylen": ln, "prefix": pf, "maxneedle": 4, "bss": list(range(1, 10))})
        for ln in range(0, 8):
            prefixes = [b""] if ln < 5 else [bytes(t) for t in itertools.product([0, 1, 0x41], repeat=ln - 4)]
            for pf in prefixes:
                shards.append({"kind": "needle_block", "alphabet": [0, 1, 0x41], "haylen": ln, "prefix": pf, "maxneedle": 4, "bss": list(range(1, 10))})
    for i in range(4 if q else 16):
        shards.append({"kind": "needle_rand", "n": 150 if q else 4000, "part": i})
    for i in range(4 if q else 16):
        shards.append({"kind": "artifact", "n": 120 if q else 3000, "part": i})
    for s in shards:
        s["budget_s"] = 45 if q else 1200
        s["timeout_s"] = 300 if q else 3600
    return shards


def _rbytes(rng, n):
    return rng.randbytes(n)


def run_shard(shard, ctx):
    rng = ctx.rng
    kind = shard["kind"]
    if kind == "needle_block":
        check_case({"op": "needle_block", **{k: shard[k] for k in ("alphabet", "haylen", "prefix", "maxneedle", "bss")}}, ctx)
        ctx.exhaustive["needle_small_spaces"] = True
    elif kind == "needle_rand":
        for i in range(shard["n"]):
            if ctx.out_of_time():
                break
            bs = rng.choice([1, 2, 3, 7, 8, 64, 512, 4096, None, 8192, 8191, 8193])
            hl = rng.randrange(0, 300) if (bs or 8192) < 64 else rng.choice([rng.randrange(0, 2000), rng.randrange(8000, 41000)])
            r = rng.random()
            if r < 0.3:
                hay = bytearray(_rbytes(rng, hl))
            elif r < 0.6:
                hay = bytearray(rng.choice(b"\x00\x00\x01A") for _ in range(hl))
            else:
                hay = bytearray(bytes([rng.choice([0, 0x69, 0x2E, 0xFF])]) * hl)
            nl = rng.choice([1, 2, 3, 7, 7, 16, rng.randrange(1, 17)])
            r = rng.random()
            if r < 0.35:
                needle = b"\x00" * rng.randrange(1, nl + 1) + _rbytes(rng, nl)
                needle = needle[:nl]
            elif r < 0.5:
                needle = bytes([rng.choice([0, 1])] * nl)
            else:
                needle = _rbytes(rng, nl)
            # plant occurrences, preferably straddling buffer boundaries
            b = bs or 8192
            for _ in range(rng.randrange(0, 5)):
                if hl < nl:
                    break
                if rng.random() < 0.7 and hl > b:
                    pos = b * rng.randrange(1, hl // b + 1) - rng.randrange(0, nl + 1)
                else:
                    pos = rng.randrange(0, hl - nl + 1)
                pos = max(0, min(pos, hl - nl))
                hay[pos : pos + nl] = needle
            hay = bytes(hay)
            start = rng.choice([None, 0, None, rng.randrange(0, hl + 2), rng.randrange(0, hl + 2)])
            limit = rng.choice([0, 0, 0, rng.randrange(1, hl + 10), 1024])
            check_case({"op": "needle", "hay": hay, "needle": needle, "bs": bs, "start": start, "limit": limit,
                        "pos": rng.randrange(0, hl + 1) if start is None and not limit and rng.random() < 0.6 else 0,
                        "consumer": rng.choice([0, 0, 1, 64, 4096]), "segment": rng.choice([0, 0, 0, 1, 7, 100, 1000, 5000])}, ctx)
    elif kind == "artifact":
        for k in range(2):
            # files beyond 64 KiB with headers in the last bytes before (and the first after) every 64 KiB border
            n = 65536 * (k + 1) + rng.choice([40, 5000])
            data = bytearray(n)
            for p in sorted({65536 * (j + 1) - d for j in range(k + 1) for d in (16, 12, 8, 5, 1, 0, -3)} | {rng.randrange(0, n - 20)}):
                if 0 <= p <= n - 20:
                    data[p : p + 20] = struct.pack("<II", p + 16, 4) + b"KEY!" + b"hintHINT"
            check_case({"op": "artifact", "data": bytes(data), "start": rng.choice([0, 1000, None]), "maxrange": None, "pos": 0, "bs": None, "fileobj": "bytesio"}, ctx)
        for i in range(shard["n"]):
            if ctx.out_of_time():
                break
            n = rng.choice([0, 3, 4, 19, 20, rng.randrange(0, 400), rng.randrange(100, 3000)])
            data = bytearray(_rbytes(rng, n) if rng.random() < 0.5 else bytes(n))
            for _ in range(rng.randrange(0, 5)):
                if n < 4:
                    break
                p = rng.randrange(0, n - 3)
                size = rng.choice([0, 1, 5, 64, n, 2**31, rng.randrange(0, n + 1)])
                hdr = struct.pack("<II", p + 16, size) + _rbytes(rng, rng.choice([4, 4, 4, 0])) .ljust(4, b"\0") + _rbytes(rng, 8)
                chunk = hdr[: max(4, min(len(hdr), n - p))] if rng.random() < 0.2 else hdr
                data[p : p + len(chunk)] = chunk[: n - p]
            bs = rng.choice([None, None, 8, 20, 64, 100, 4096])
            b = bs or 8192
            if n >= 24 and rng.random() < 0.5:
                # headers that straddle a block boundary of the scanner (self-reference split 1|3, 2|2, 3|1, or just before/after)
                for _ in range(rng.randrange(1, 4)):
                    if n <= b + 24 and bs is None:
                        data += _rbytes(rng, b + 64 - n) if rng.random() < 0.5 else bytes(b + 64 - n)
                        n = len(data)
                    p = b * rng.randrange(1, max(2, n // b + 1)) - rng.choice([0, 1, 2, 3, 4, 19, 20])
                    if 0 <= p <= n - 20:
                        data[p : p + 20] = struct.pack("<II", p + 16, rng.choice([0, 5, 64])) + _rbytes(rng, 12)
            data = bytes(data)
            start = rng.choice([0, 0, None, rng.randrange(0, n + 2)])
            maxrange = rng.choice([None, None, rng.randrange(0, n + 2), 0])
            fileobj = rng.choice(["bytesio", "bytesio", "mmap"])
            if fileobj == "mmap" and start is not None and start > n:
                start = n  # (an mmap object itself refuses to seek beyond its end: not the scanner's doing)
            check_case({"op": "artifact", "data": data, "start": start, "maxrange": maxrange, "pos": rng.randrange(0, n + 1), "bs": bs,
                        "fileobj": fileobj}, ctx)
    else:
        raise ValueError(kind)


LEVEL_TEXT = (
    "Exploration against a naive bytes.find / struct model: iter_find_needle is run on every haystack up to the length "
    "bound over two small alphabets with every short needle, every read-buffer size 1..9 (via an io proxy in the "
    "library module), several start offsets and limits, plus large random haystacks with needles planted across buffer "
    "boundaries, read through BytesIO and through file objects with short reads (segmented storage); "
    "iter_artifactkit_payloads is run on files (up to 128 KiB, BytesIO and mmap, scanned twice) with planted self-referential headers. The reported lists "
    "are compared exactly (or by the subset/superset rule when a limit is given)."
)
LEVEL_NOTE = "Held on the enumerated small spaces and the sampled large ones; trusted base: bytes.find, struct."
TECHNIQUE = "reference-model runtime monitor over exhaustively enumerated small inputs + boundary-planted random inputs"
