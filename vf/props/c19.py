"""C19 - the beacon client keeps a stable identity and dispatches tasks exactly once.

Monitors: identity oracle (id parity/range, SHA-256 key split, PKCS#1 length rule + real RSA round trip);
sleep-band monitor; dispatch history checker: the real _beacon_loop is driven by a scripted task source,
every handler is wrapped by a recorder and the event log is checked offline against a small dispatch model;
icontract purity contract on get_handlers."""

from __future__ import annotations

import collections
import hashlib
import random
import time as _time
import types

from vf import contracts, core
from vf.ref import config as C
from vf.ref import crypto as R
from vf.ref import tlv

ID = "C19"
LEVEL = "exploration"
RULE = (
    "identity cases are (requested beacon id, user, computer, process, key size): ids from {0, +-1, 2^31+-k, 2^32+-k, huge "
    "+-, random}, names ASCII / long / Latin-1 / CJK / empty; sleep cases are (sleeptime, jitter) pairs with 200 (thorough: "
    "10 000) samples each; dispatch cases are (registrations, task history): decorator, on_<command> method, explicit "
    "register_task and catch-all handlers (decorator and on_catch_all) for random subsets of commands, some handlers "
    "raising or returning callbacks, followed by 1..200 tasks (empty check-ins interleaved). Non-trivial: identity with a "
    "non-default name or an id needing normalisation; dispatch history with >= 2 tasks for some command. Distinct = "
    "distinct argument tuple / (registrations, history)."
)
ASSUMPTIONS = [
    "empty check-ins are part of the histories but their own dispatch is not judged (the statement speaks of tasks received)",
    "command ids are any 32-bit id the wire format can carry (known and unknown to the client); id 6 (NOOP alias) is not scripted because the real get_task filters it",
    "handlers are driven through the real loop body with get_task / send_callback / time.sleep replaced by recorders (no network)",
]
REQUIRED_MONITORS = ["identity.id", "identity.keys", "metadata.fits", "sleep.band", "dispatch.exactly_once", "client.get_handlers.pure"]

_cfg_cache = {}


def config_for(keyname):
    from dissect.cobaltstrike import beacon

    if keyname not in _cfg_cache:
        rng = random.Random("c19:" + keyname)
        settings, model = C.build_http_config(rng, keyname=keyname, extras=True, allow_uri=False)
        _cfg_cache[keyname] = (tlv.encode(settings) + b"\0\0", model)
    block, model = _cfg_cache[keyname]
    return beacon.BeaconConfig(block), model


class Stop(BaseException):
    pass


def check_identity(case, ctx):
    from dissect.cobaltstrike import c2, client as cl

    cfg, model = config_for(case["key"])
    key = R.load_key(case["key"])
    rid = case["beacon_id"]
    kw = dict(beacon_id=rid, user=case["user"], computer=case["computer"], process=case["process"], dry_run=True)
    ctx.mon("identity.id")
    clients = []
    for attempt in range(2):
        c = cl.HttpBeaconClient()
        random.seed(case["seed"] + attempt)
        if attempt == 1:
            # same id, everything else about the session may differ: explicit pid / architecture / integrity / sleep options
            kw = dict(kw, pid=4242, arch="x64", barch="x86", high_integrity=True, sleeptime=1234, jitter=0, internal_ip="10.1.2.3")
            if rid is not None and case.get("shift"):
                # another integer that is presented as the same id (the id is taken modulo 2^32): same id, same keys
                kw["beacon_id"] = rid + case["shift"] * 2**32
        try:
            c.run(cfg, **kw)
        except ValueError as e:
            if rid is not None and 0 <= rid < 2**31:
                ctx.violation("identity.id", f"valid beacon id {rid} rejected: {e}", case)
                return
            clients.append(None)
            continue
        except Exception as e:  # noqa: BLE001
            ctx.violation("identity.exception", f"run(dry_run=True) raised {type(e).__name__}: {e}", case)
            return
        clients.append(c)
        bid = c.beacon_id
        if not isinstance(bid, int) or bid % 2 or not (0 <= bid < 2**31) or c.metadata.bid != bid:
            ctx.violation("identity.id", f"requested id {rid!r}: client presents beacon id {bid!r} (metadata.bid={c.metadata.bid})", case)
            return
        if rid is not None and 0 <= rid < 2**31 and bid != rid - rid % 2:
            ctx.violation("identity.id", f"requested id {rid}: client presents {bid}", case)
            return
    if clients[0] is None or clients[1] is None:
        if clients[0] is not clients[1]:
            ctx.violation("identity.id", f"id {rid!r} accepted by one instance and rejected by another", case)
            return
        ctx.ok(fp=("id", rid), nontrivial=True, case=case, classes=("id:rejected",))
        return
    a, b = clients
    ctx.mon("identity.keys")
    d = hashlib.sha256(a.aes_rand).digest()
    same_id = a.beacon_id == b.beacon_id  # (a random id is drawn per instance when none is requested)
    if (same_id and (a.aes_rand, a.aes_key, a.hmac_key) != (b.aes_rand, b.aes_key, b.hmac_key)) or (a.aes_key, a.hmac_key) != (d[:16], d[16:]) \
            or bytes(a.metadata.aes_rand) != a.aes_rand or len(a.aes_rand) != 16:
        ctx.violation("identity.keys", f"id {a.beacon_id}: session keys differ between instances or are not the SHA-256 halves of aes_rand", case)
        return
    # another id must give other keys (the seed depends on the id)
    ctx.mon("metadata.fits")
    k = key.size_in_bytes()
    raw = a.metadata.dumps()
    info = bytes(a.metadata.info)
    if len(raw) > k - 11:
        ctx.violation("metadata.fits", f"metadata is {len(raw)} bytes (info {len(info)} bytes: {info!r}), the {k * 8}-bit RSA key takes at most {k - 11}", case)
        return
    try:
        blob = c2.encrypt_metadata(a.metadata, a.c2http.pub)
    except Exception as e:  # noqa: BLE001
        ctx.violation("metadata.fits", f"encrypt_metadata raised {type(e).__name__}: {e} (info {len(info)} bytes: {info!r})", case)
        return
    plain = R.rsa_decrypt_pkcs1(key.n, key.d, blob)
    if plain is None:
        ctx.violation("metadata.fits", "check-in blob does not decrypt with the server key", case)
        return
    f, got_info = R.meta_unpack(plain)
    if f["magic"] != 0xBEEF or f["bid"] != a.beacon_id or f["aes_rand"] != a.aes_rand or got_info != info:
        ctx.violation("metadata.fits", f"decrypted check-in differs: {core.short(f)}", case)
        return
    # the same client object set up again for another id must present that id's keys, not the previous ones
    other = (a.beacon_id + 2) % 2**31
    try:
        a.run(cfg, dry_run=True, beacon_id=other, user="u", computer="c", process="p")
    except Exception as e:  # noqa: BLE001
        ctx.violation("identity.keys", f"second run() on the same client object raised {type(e).__name__}: {e}", case)
        return
    fresh = cl.HttpBeaconClient()
    fresh.run(cfg, dry_run=True, beacon_id=other, user="u", computer="c", process="p")
    d2 = hashlib.sha256(a.aes_rand).digest()
    if a.beacon_id != other or (a.aes_rand, a.aes_key, a.hmac_key) != (fresh.aes_rand, fresh.aes_key, fresh.hmac_key) or (a.aes_key, a.hmac_key) != (d2[:16], d2[16:]) \
            or a.aes_rand == b.aes_rand or bytes(a.metadata.aes_rand) != a.aes_rand or a.metadata.bid != other \
            or tuple(a.c2http.beacon_keys)[:2] != (d2[:16], d2[16:]) or tuple(fresh.c2http.beacon_keys)[:2] != (d2[:16], d2[16:]):
        ctx.violation("identity.keys", f"client object re-run for id {other} keeps state of id {b.beacon_id} (keys/metadata do not match a fresh client for {other})", case)
        return
    nt = case["user"] is not None or (rid is not None and (rid % 2 or rid < 0 or rid >= 2**31))
    ctx.ok(fp=("id", rid, case["user"], case["computer"], case["process"], case["key"]), nontrivial=bool(nt), case=case,
           classes=(f"key:{case['key'][:7]}", "names:" + case["namekind"], "id:accepted"))


def check_sleep(case, ctx):
    from dissect.cobaltstrike import client as cl

    cfg, _ = config_for("rsa1024_a")
    c = cl.HttpBeaconClient()
    random.seed(case["seed"])
    c.run(cfg, dry_run=True, beacon_id=2, sleeptime=case["sleeptime"], jitter=case["jitter"])
    lo = case["sleeptime"] * (1 - case["jitter"] / 100)
    hi = case["sleeptime"]
    eps = 1e-9 * max(1, hi)
    for i in range(case["samples"]):
        ctx.monitors["sleep.band"] += 1
        s = c.get_sleep_time()
        if not (lo - eps <= s <= hi + eps):
            ctx.violation("sleep.band", f"sleeptime={hi} jitter={case['jitter']}%: interval {s} outside [{lo}, {hi}]", case)
            return
    # reconfigured while running (a COMMAND_SLEEP task handler assigns client.sleeptime / client.jitter, as the example client
    # does), then started once more with other values: the band is always the one configured now
    r2 = random.Random(case["seed"] ^ 0x51EE9)
    for how in ("attributes", "run"):
        st2 = r2.choice([0, 1, 1000, 60000, r2.randrange(0, 10**7)])
        j2 = r2.choice([0, 0, 50, 99, r2.randrange(0, 100)])
        if how == "attributes":
            c.sleeptime, c.jitter = st2, j2
        else:
            c.run(cfg, dry_run=True, beacon_id=2, sleeptime=st2, jitter=j2)
        lo2, hi2 = st2 * (1 - j2 / 100), st2
        eps2 = 1e-9 * max(1, hi2)
        for i in range(min(case["samples"], 50)):
            ctx.monitors["sleep.band"] += 1
            s = c.get_sleep_time()
            if not (lo2 - eps2 <= s <= hi2 + eps2):
                ctx.violation("sleep.band", f"reconfigured ({how}) from sleeptime={hi} jitter={case['jitter']}% to sleeptime={st2} jitter={j2}%: interval {s} outside [{lo2}, {hi2}]", case)
                return
    ctx.ok(fp=("sleep", case["sleeptime"], case["jitter"], case["seed"]), case=case, classes=(f"jitter:{'0' if not case['jitter'] else '99' if case['jitter'] == 99 else 'mid'}",))


def check_dispatch(case, ctx):
    from dissect.cobaltstrike import client as cl
    from dissect.cobaltstrike.c_c2 import BeaconCallback, BeaconCommand, TaskPacket

    contracts.install_client()
    contracts.take()
    cfg, _ = config_for("rsa1024_a")
    log = []  # (task index, handler label)
    cur = {"i": -1}

    def mk(label, behaviour):
        def h(task):
            log.append((cur["i"], label))
            if behaviour == "raise":
                raise RuntimeError("handler failure")
            if behaviour == "reply":
                return (BeaconCallback.CALLBACK_OUTPUT, b"ok")
            return None

        return h

    methods = {}
    for cmd in [m for m in case["methods"] if m not in UNKNOWN_COMMANDS]:
        name = "on_" + ("empty_task" if cmd is None else BeaconCommand(cmd).name.replace("COMMAND_", "").lower())
        methods[name] = (lambda lab, beh: (lambda self, task: mk(lab, beh)(task)))(f"method:{cmd}", "none")
    if case["on_catch_all"]:
        methods["on_catch_all"] = lambda self, task: mk("method:catch_all", "none")(task)
    Sub = type("Sub", (cl.HttpBeaconClient,), methods)
    c = Sub()
    random.seed(case["seed"])
    c.run(cfg, dry_run=True, beacon_id=10, sleeptime=case["sleeptime"], jitter=case["jitter"])
    registered = collections.defaultdict(list)  # command -> labels in registration order
    for n, (how, cmd, beh) in enumerate(case["registrations"]):
        label = f"{how}#{n}:{cmd}"
        if how == "decorator":
            # the command may be given as int, as the exported IntEnum, or as the enum type that task.command carries
            if cmd is None or n % 3 == 0 or cmd in UNKNOWN_COMMANDS:
                arg = cmd
            elif n % 3 == 1:
                arg = BeaconCommand(cmd)
            else:
                arg = TaskPacket().command.__class__(cmd)
            ret = c.handle(arg)(mk(label, beh))
            registered[cmd].append(label)
            if n % 4 == 1 and cmd is not None:
                # stacked decorators: what the decorator returns is registered for a second command
                in_hist = [x for x in case["history"] if x is not None and x != cmd and x in COMMANDS]
                cmd2 = in_hist[(case["seed"] + n) % len(in_hist)] if in_hist else [x for x in COMMANDS if x != cmd][(case["seed"] + n) % (len(COMMANDS) - 2)]
                c.handle(cmd2)(ret)
                registered[cmd2].append(label)
        elif how == "register":
            # register_task is public too: same three spellings of the command
            if cmd is None or cmd == -1 or n % 3 == 0 or cmd in UNKNOWN_COMMANDS:
                arg = cmd
            elif n % 3 == 1:
                arg = BeaconCommand(cmd)
            else:
                arg = TaskPacket().command.__class__(cmd)
            c.register_task(arg, mk(label, beh))
            registered[cmd].append(label)
        elif how == "catch_all":
            c.catch_all()(mk(label, beh))
            registered[-1].append(label)
    tasks = []
    for cmd in case["history"]:
        if cmd is None:
            tasks.append(None)
        else:
            t = TaskPacket()
            t.epoch = 1
            t.command = t.command.__class__(cmd)  # the wire enum accepts any 32-bit id, newer servers send ids the client does not know
            t.data = b"x"
            t.size = 1
            t.total_size = 9
            tasks.append(t)
    it = iter(tasks)
    sleeps, sent = [], []

    def get_task():
        cur["i"] += 1
        try:
            return next(it)
        except StopIteration:
            raise Stop()

    c.get_task = get_task
    c.send_callback = lambda *a: sent.append((cur["i"],) + a)
    real_time = cl.time
    cl.time = types.SimpleNamespace(sleep=lambda s: sleeps.append(s), time=_time.time)
    c.silent = True
    records = []
    if case.get("writer"):
        # run(writer=...) / -w: every task and callback is also written as a record before it is handled
        c.writer = types.SimpleNamespace(write=records.append, flush=lambda: None)
    before = contracts.evaluations["client.get_handlers.pure"]
    try:
        try:
            c._beacon_loop()
        except Stop:
            pass
        except Exception as e:  # noqa: BLE001
            ctx.violation("dispatch.exception", f"loop raised {type(e).__name__}: {e}", case)
            return
    finally:
        cl.time = real_time
    ctx.mon("client.get_handlers.pure", contracts.evaluations["client.get_handlers.pure"] - before)
    # ---- offline checker over the event log -------------------------------------------------------------
    per_task = collections.defaultdict(list)
    for i, label in log:
        per_task[i].append(label)
    replies_expected = 0
    for i, cmd in enumerate(case["history"]):
        if cmd is None:
            continue
        ctx.monitors["dispatch.exactly_once"] += 1
        want = list(registered.get(cmd, []))
        if cmd in case["methods"] and cmd not in UNKNOWN_COMMANDS:
            want.append(f"method:{cmd}")
        if not want:
            want = list(registered.get(-1, []))
            if case["on_catch_all"]:
                want.append("method:catch_all")
        got = per_task.get(i, [])
        if sorted(got) != sorted(want):
            ctx.violation("dispatch.exactly_once",
                          f"task #{i} (command {cmd}, after {i} earlier check-ins): handlers invoked {got}, registered for it {want}", case)
            return
        replies_expected += sum(1 for n, (how, rc, beh) in enumerate(case["registrations"]) if beh == "reply" and f"{how}#{n}:{rc}" in want)
    judged_sent = [s for s in sent if case["history"][s[0]] is not None]
    if len(judged_sent) != replies_expected:
        ctx.violation("dispatch.callbacks", f"{len(judged_sent)} callbacks sent, handlers returned {replies_expected} responses", case)
        return
    lo, hi = case["sleeptime"] * (1 - case["jitter"] / 100) / 1000, case["sleeptime"] / 1000
    for s in sleeps:
        ctx.monitors["sleep.band"] += 1
        if not (lo - 1e-9 <= s <= hi + 1e-9):
            ctx.violation("sleep.band", f"loop slept {s}s outside [{lo}, {hi}]", case)
            return
    br = contracts.take()
    if br:
        ctx.violation(br[0][0], br[0][1], case)
        return
    counts = collections.Counter(x for x in case["history"] if x is not None)
    ctx.ok(fp=(repr(case["registrations"]), repr(case["methods"]), case["on_catch_all"], repr(case["history"])),
           nontrivial=bool(counts) and max(counts.values()) >= 2, case=case,
           classes=(f"hist:{'1-5' if len(case['history']) <= 5 else '6-50' if len(case['history']) <= 50 else '51-200'}",
                    *{f"reg:{r[0]}" for r in case["registrations"]}, "reg:method" if case["methods"] else "reg:nomethod",
                    "on_catch_all" if case["on_catch_all"] else "no_on_catch_all", "writer" if case.get("writer") else "no_writer"))


def check_case(case, ctx):
    op = case["op"]
    if op == "identity":
        check_identity(case, ctx)
    elif op == "sleep":
        check_sleep(case, ctx)
    elif op == "dispatch":
        check_dispatch(case, ctx)
    else:
        raise ValueError(op)


COMMANDS = [1, 2, 3, 4, 5, 6, 6, 8, 9, 10, 11, 12, 27, 32, 33, 39, 40, 53, 77, 100, 102]
UNKNOWN_COMMANDS = [0, 20, 48, 103, 104, 200, 65535]  # ids outside the client's command table


def gen_names(rng):
    kind = rng.choice(["default", "ascii", "long", "latin1", "cjk", "empty", "mixed", "surrogate"])
    if kind == "surrogate":
        # names as they arrive from the command line when the bytes are not valid UTF-8 (surrogateescape), before and
        # beyond the 51-byte cut, and an unpaired surrogate from a UTF-16 source
        return rng.choice(["caf\udce9", "u" * 60 + "\udc80", "user"]), rng.choice(["PC-\ud83d", "HOST\udcff", "HOST"]), rng.choice(["\udcff.exe", "p.exe"]), kind
    if kind == "default":
        return None, None, None, kind
    if kind == "ascii":
        return "john.doe", "WIN-ABCDEFGHIJK", "rundll32.exe", kind
    if kind == "long":
        return "x" * rng.randrange(20, 200), "C" * rng.randrange(10, 100), "p" * rng.randrange(5, 60) + ".exe", kind
    if kind == "latin1":
        return "".join(rng.choice("éèüöäñçøå") for _ in range(rng.randrange(5, 40))), "PC-" + "ß" * rng.randrange(1, 20), "exploré.exe", kind
    if kind == "cjk":
        return "".join(rng.choice("管理者用户測試ユーザー") for _ in range(rng.randrange(3, 30))), "電腦-" + "机" * rng.randrange(1, 20), "进程.exe", kind
    if kind == "empty":
        return "", "", "", kind
    return "user" + "é" * rng.randrange(0, 30), "DESKTOP-" + "A" * rng.randrange(0, 30), rng.choice(["a.exe", "процесс.exe"]), kind


def plan(tier, seed):
    q = tier == "quick"
    shards = [{"kind": "identity", "n": 250 if q else 12000} for _ in range(6)]
    shards += [{"kind": "sleep", "n": 60 if q else 400, "samples": 200 if q else 10000} for _ in range(2)]
    shards += [{"kind": "dispatch", "n": 80 if q else 4000} for _ in range(8)]
    for s in shards:
        s["budget_s"] = 50 if q else 2400
        s["timeout_s"] = 300 if q else 5400
    return shards


def run_shard(shard, ctx):
    rng = ctx.rng
    kind = shard["kind"]
    if kind == "identity":
        for i in range(shard["n"]):
            if ctx.out_of_time():
                break
            rid = rng.choice([0, 1, -1, 2, 3, 2**31 - 1, 2**31 - 2, 2**31, 2**31 + 1, 2**32 - 1, 2**32, 2**32 + 1, -(2**31), -(2**32), 10**30, -(10**30),
                              None, rng.randrange(0, 2**31), rng.randrange(0, 2**31), rng.randrange(-(2**33), 2**33)])
            user, computer, process, nk = gen_names(rng)
            check_case({"op": "identity", "beacon_id": rid, "user": user, "computer": computer, "process": process, "namekind": nk, "shift": rng.choice([0, 0, 1, -1, 5]),
                        "key": rng.choice(["rsa1024_a", "rsa1024_a", "rsa2048_a"]), "seed": rng.getrandbits(32)}, ctx)
    elif kind == "sleep":
        for i in range(shard["n"]):
            if ctx.out_of_time():
                break
            st = rng.choice([0, 1, 1000, 60000, 10**7, rng.randrange(0, 10**7)])
            j = rng.choice([0, 1, 50, 99, rng.randrange(0, 100)])
            check_case({"op": "sleep", "sleeptime": st, "jitter": j, "samples": shard["samples"], "seed": rng.getrandbits(32)}, ctx)
    elif kind == "dispatch":
        for i in range(shard["n"]):
            if ctx.out_of_time():
                break
            cmds = rng.sample(COMMANDS, rng.randrange(1, 7))
            if rng.random() < 0.3:
                cmds += rng.sample(UNKNOWN_COMMANDS, rng.randrange(1, 3))
            regs = []
            for _ in range(rng.randrange(0, 8)):
                how = rng.choice(["decorator", "decorator", "register", "catch_all"])
                cmd = None if how != "catch_all" and rng.random() < 0.1 else rng.choice(cmds)
                regs.append([how, cmd if how != "catch_all" else -1, rng.choice(["none", "none", "reply", "raise"])])
            methods = [c for c in cmds if rng.random() < 0.3]
            if rng.random() < 0.15:
                methods.append(None)
            n = rng.choice([1, 2, 5, 20, 60, rng.randrange(1, 201)])
            pool = cmds + [rng.choice(COMMANDS + UNKNOWN_COMMANDS)]
            hist = [None if rng.random() < 0.12 else rng.choice(pool) for _ in range(n)]
            check_case({"op": "dispatch", "registrations": regs, "methods": methods, "on_catch_all": rng.random() < 0.4, "history": hist,
                        "sleeptime": rng.choice([0, 100, 60000]), "jitter": rng.choice([0, 10, 99]), "seed": rng.getrandbits(32),
                        "writer": rng.random() < 0.25}, ctx)
    else:
        raise ValueError(kind)


LEVEL_TEXT = (
    "Exploration with a history checker: the real HttpBeaconClient is set up (dry run) for boundary and random beacon ids "
    "and ASCII / long / Latin-1 / CJK / empty names against 1024- and 2048-bit server keys - id parity and range, "
    "key determinism, the SHA-256 split, the PKCS#1 length rule and a real RSA round trip are checked; the real "
    "_beacon_loop is then driven over scripted histories of up to 200 tasks with decorator / method / explicit / catch-all "
    "registrations, every handler wrapped by a recorder, and the event log is checked offline for exactly-once dispatch; "
    "an icontract contract observes every get_handlers lookup for purity."
)
LEVEL_NOTE = "Held on the identities and histories explored; trusted base: the dispatch model in this module, own PKCS#1/RSA."
TECHNIQUE = "history recorder + offline exactly-once checker over the real loop body; icontract purity contract on get_handlers; reference RSA/PKCS#1 for the fit check"
