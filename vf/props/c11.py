"""C11 - the dictionary view reports exactly what the profile says.

Monitors: (1) reference dictionary computed from the generator's model of the profile vs as_dict();
(2) modification histories: interleaved set_option / set_config_block / direct tree edits and dictionary
reads, the view must track the model after every modification; (3) builder equivalence: the same profile
built through the block-builder API and parsed from text must agree in tree, text and dictionary."""

from __future__ import annotations

import collections
import random

from vf import core
from vf.ref import profile as PR
from vf.ref.profile_lang import LANG

ID = "C11"
LEVEL = "exploration"
RULE = (
    "dictionary cases are profiles from the language-table generator (options, pairs, data-transform / execute / BeaconGate "
    "lists, variants, repeats, hostile literals) with their model; history cases are a parsed or built profile followed by "
    "1..8 modifications (set_option, set_config_block, direct tree append) each followed by 1..2 dictionary reads; builder "
    "cases are random builder programs over every block kind replayed through the ConfigBlock API and rendered to text by "
    "the reference. Non-trivial: profile with at least one list path or pair, or a history with a read-modify-read. "
    "Distinct = distinct (text, history)."
)
ASSUMPTIONS = [
    "transform-like blocks outside the ten list paths (stage transforms, variant blocks, and the data-transform positions that only the library's grammar, not Cobalt Strike, allows: http-get client id/output ...) are judged representation-tolerantly: every written item exactly once under its path, either as (keyword, bytes) or as keyword-suffixed key",
    "option and pair values are reported as written (raw literal text); list-path arguments decoded to bytes",
    "a str handed to the builder is literal text as written in a profile (escape sequences included), bytes are raw values; the spelling the builder chooses for bytes is C12's subject",
]
REQUIRED_MONITORS = ["dict.model", "history.tracks", "builder.equal"]

LIST_PATHS = {
    "stage.transform-x86.header", "process-inject.transform-x86", "process-inject.execute", "http-post.server.output", "http-post.client.id",
    "http-post.client.output", "http-stager.server.output", "http-get.client.metadata", "http-get.server.output",
    "process-inject.transform-x64",  # the sibling of process-inject.transform-x86: same block kind, same representation
}
TRANSFORM_RULES = {"transform_statement", "termination_statement", "stage_transform", "execute_options"}


def path_key(path):
    comps = [p for p in path if p != '"default"']
    return ".".join(comps)


def expected_dict(statements):
    """-> (strict dict key -> list, tolerant list of (path_key, kw, raw, val))"""
    strict = collections.defaultdict(list)
    tolerant = []
    for st in statements:
        pk = path_key(st["path"])
        kw = st["kw"][0]
        n = len(st["args"])
        if pk in LIST_PATHS:
            strict[pk].append(kw if n == 0 else (kw,) + tuple(st["vals"]))
        elif st["rule"] in TRANSFORM_RULES:
            tolerant.append((pk, kw, st["args"], st["vals"]))
        elif n == 2:
            strict[(pk + "." if pk else "") + kw].append((st["args"][0], st["args"][1]))
        elif n == 1:
            strict[(pk + "." if pk else "") + kw].append(st["args"][0])
        else:
            strict[pk].append(kw)
    return dict(strict), tolerant


def compare_dict(got, statements):
    """None or message"""
    strict, tolerant = expected_dict(statements)
    got = {k: list(v) for k, v in got.items()}
    tol_keys = collections.Counter()
    for pk, kw, raws, vals in tolerant:
        cands = []
        if not raws:
            cands = [(pk, kw)]
        elif len(raws) == 1:
            cands = [(pk, (kw, vals[0])), ((pk + "." if pk else "") + kw, raws[0]), ((pk + "." if pk else "") + kw, vals[0])]
        else:
            cands = [(pk, (kw,) + tuple(vals)), ((pk + "." if pk else "") + kw, tuple(raws)), ((pk + "." if pk else "") + kw, tuple(vals))]
        hit = False
        for key, val in cands:
            lst = got.get(key)
            if lst is not None and val in lst:
                lst.remove(val)
                hit = True
                break
        if not hit:
            return f"item {kw} {raws!r} of block {pk!r} is not reported (tried {[c[0] for c in cands]})"
    for key, want in strict.items():
        have = got.get(key)
        if have is None:
            return f"key {key!r} missing; expected {core.short(want, 80)}"
        # tolerant items may share the key (e.g. keyword-only items of a non-list block): they were removed above
        if have != want:
            return f"key {key!r}: reported {core.short(have, 80)!r}, the profile says {core.short(want, 80)!r}"
        got[key] = []
    left = {k: v for k, v in got.items() if v}
    if left:
        k = next(iter(left))
        return f"dictionary reports {k!r}: {core.short(left[k], 80)!r} which the profile does not say"
    return None


# ---- builder programs ----------------------------------------------------------------------------------------------
def _classify(alt):
    items = alt["items"]
    if ("kw", "{") in items:
        star = [v for k, v in items if k == "star"]
        return "block", star[0] if star else None
    return "stmt", sum(1 for k, v in items if k == "ref" and v == "string")


def _kws(alt):
    return [v for k, v in alt["items"] if k == "kw" and v not in ("{", "}", ";")]


SIMPLE = "abcdefghijklmnopqrstuvwxyzABCDEFGHIJKLMNOPQRSTUVWXYZ0123456789 /.:=-_%()*,+!@"


_WRITTEN = [False]


def _val(rng):
    if _WRITTEN[0] and rng.random() < 0.5:
        # literal text "as written in a profile", escape sequences included: what a str argument of the builder is taken to
        # be (and what the dictionary view reports for scalar options)
        data = b"".join(rng.choice([b'"', b"\\", b"'", b"a", b"\n", b";", b"x", b"\xff", b"\x00", b" ", b"{", b"#"]) for _ in range(rng.randrange(0, 8)))
        return PR.lit_encode(data, rng, hostile=True).replace("\n", "\\n").replace("\r", "\\r")
    return "".join(rng.choice(SIMPLE) for _ in range(rng.randrange(0, 16)))


def gen_program(rng, rule="value", depth=0, budget=None):
    """-> list of nodes: ("stmt", alias, kws, [values]) | ("block", alias, kws, [children]) | ("dt", alias, kws, [steps])"""
    budget = budget if budget is not None else [rng.choice([3, 8, 20, 40])]
    out = []
    n = rng.choice([1, 2, 3, 5]) if depth else rng.choice([1, 2, 4, 7])
    alts = [a for a in LANG[rule] if a["alias"] not in PR.EXCLUDED_ALIASES]
    for _ in range(n):
        if budget[0] <= 0:
            break
        budget[0] -= 1
        alt = rng.choice(alts)
        kind, info = _classify(alt)
        kws = _kws(alt)
        if kind == "stmt":
            if rule == "value":  # global option
                out.append(("option", rng.choice(LANG["OPTION"]), ["set"], [_val(rng)]))
            else:
                out.append(("stmt", alt["alias"], kws, [_val(rng) for _ in range(info)]))
        elif info == "data_transform":
            steps = []
            for _ in range(rng.choice([0, 1, 2, 4])):
                a = rng.choice(LANG["transform_statement"])
                steps.append((a["alias"], _kws(a)[0], _val(rng) if _classify(a)[1] else None))
            t = rng.choice(LANG["termination_statement"])
            steps.append((t["alias"], _kws(t)[0], _val(rng) if _classify(t)[1] else None))
            out.append(("dt", alt["alias"], kws, steps))
        else:
            out.append(("block", alt["alias"], kws, gen_program(rng, info, depth + 1, budget) if info else []))
    return out


def program_text(nodes, indent=0):
    pad = "    " * indent
    lines = []
    for node in nodes:
        kind, alias, kws, body = node
        if kind == "option":
            lines.append(f'{pad}set {alias} "{body[0]}";')
        elif kind == "stmt":
            lines.append(pad + " ".join(kws) + "".join(f' "{v}"' for v in body) + ";")
        elif kind == "dt":
            lines.append(pad + " ".join(kws) + " {")
            for a, kw, v in body:
                lines.append(pad + "    " + kw + (f' "{v}"' if v is not None else "") + ";")
            lines.append(pad + "}")
        else:
            lines.append(pad + " ".join(kws) + " {")
            lines.append(program_text(body, indent + 1))
            lines.append(pad + "}")
    return "\n".join(l for l in lines if l != "")


def program_build(nodes, target, c2p, top=False):
    for kind, alias, kws, body in nodes:
        if kind == "option":
            target.set_option(alias, body[0])
        elif kind == "stmt":
            if len(body) == 0:
                target._enable(alias, True)
            elif len(body) == 1:
                target.set_option(alias, body[0])
            else:
                target._pair(alias, [tuple(body)])
        elif kind == "dt":
            steps = [(a if v is None else (a, v)) for a, kw, v in body]
            target.set_config_block(alias, c2p.DataTransformBlock(steps=steps))
        else:
            child = c2p.ConfigBlock()
            program_build(body, child, c2p)
            target.set_config_block(alias, child)


def program_statements(nodes, path=()):
    """model statements (same shape as the sentence generator's) for the dictionary oracle"""
    out = []
    for kind, alias, kws, body in nodes:
        if kind == "option":
            out.append({"path": path, "kw": [alias], "args": [body[0]], "vals": [PR.lit_decode(body[0])], "rule": "value"})
        elif kind == "stmt":
            k = [x for x in kws if x != "set"]
            out.append({"path": path, "kw": k, "args": list(body), "vals": [PR.lit_decode(b) for b in body],
                        "rule": "execute_options" if path and path[-1] == "execute" else "stage_transform" if path and path[-1].startswith("transform-") else "x"})
        elif kind == "dt":
            p = path + tuple(kws)
            for a, kw, v in body:
                out.append({"path": p, "kw": [kw], "args": [] if v is None else [v], "vals": [] if v is None else [PR.lit_decode(v)], "rule": "transform_statement"})
        else:
            out += program_statements(body, path + tuple(kws))
    return out


# ---- checks ----------------------------------------------------------------------------------------------------------
def check_case(case, ctx):
    from lark import Token, Tree

    from dissect.cobaltstrike import c2profile as c2p

    op = case["op"]
    if op == "dict":
        ctx.mon("dict.model")
        try:
            prof = c2p.C2Profile.from_text(case["text"])
            for _ in range(case.get("reads", 1)):
                d = prof.as_dict()
            d2 = prof.properties
        except Exception as e:  # noqa: BLE001
            ctx.violation("dict.model", f"{type(e).__name__}: {str(e)[:300]}", case)
            return
        r = compare_dict(d, case["statements"])
        if r is None and d2 != d:
            r = "properties differs from as_dict()"
        if r is None:
            # another profile object read in between: every profile has its own view
            try:
                other = c2p.C2Profile.from_text('set sample_name "other profile";\nhttp-get {\n set uri "/other";\n}\n')
                od = other.as_dict()
                d3, d4, od2 = prof.as_dict(), prof.properties, other.as_dict()
            except Exception as e:  # noqa: BLE001
                ctx.violation("dict.model", f"two profiles read in turn: {type(e).__name__}: {str(e)[:300]}", case)
                return
            if od != {"sample_name": ["other profile"], "http-get.uri": ["/other"]} or od2 != od:
                r = f"the view of a second profile, read after this one, is {od!r} / {od2!r}"
            elif d3 != d or d4 != d:
                r = "as_dict() / properties of this profile changed after another profile's view was read"
        if r:
            ctx.violation("dict.model", r, {"op": "dict", "text": case["text"], "statements": case["statements"], "reads": case.get("reads", 1)})
            return
        strict, tol = expected_dict(case["statements"])
        nt = any(k in LIST_PATHS for k in strict) or any(isinstance(v, tuple) for vs in strict.values() for v in vs)
        ctx.ok(fp=case["text"], nontrivial=nt, case={"op": "dict", "text": case["text"]}, classes=(
            "dict:listpath" if any(k in LIST_PATHS for k in strict) else "dict:nolist", "dict:tolerant" if tol else "dict:strict-only",
            "dict:variant" if any('"' in c for st in case["statements"] for c in st["path"]) else "dict:novariant"))
    elif op == "history":
        ctx.mon("history.tracks")
        rng = random.Random(case["seed"])
        try:
            prof = c2p.C2Profile.from_text(case["text"]) if case["start"] == "parsed" else c2p.C2Profile()
            stmts = list(case["statements"]) if case["start"] == "parsed" else []
            handles = {}
            d0 = prof.as_dict()
            r = compare_dict(d0, stmts)
            if r:
                ctx.violation("dict.model", r, case)
                return
            for i, mod in enumerate(case["mods"]):
                kind = mod[0]
                if kind == "set_option":
                    prof.set_option(mod[1], mod[2])
                    stmts.append({"path": (), "kw": [mod[1]], "args": [mod[2]], "vals": [mod[2].encode()], "rule": "value"})
                elif kind == "block":
                    blk = c2p.DnsBeaconBlock()
                    for k, v in mod[2]:
                        blk.set_option(k, v)
                    prof.set_config_block("dns_beacon", blk)
                    handles["dns"] = blk
                    for k, v in mod[2]:
                        stmts.append({"path": ("dns-beacon",), "kw": [k], "args": [v], "vals": [v.encode()], "rule": "x"})
                elif kind == "tree":
                    prof.tree.children.append(Tree("option", [Token("OPTION", mod[1]), Tree("string", [Token("STRING", '"' + mod[2] + '"')])]))
                    stmts.append({"path": (), "kw": [mod[1]], "args": [mod[2]], "vals": [mod[2].encode()], "rule": "value"})
                elif kind == "nested":
                    # modify inside an existing block, no top-level change: append an option to the last dns-beacon/stage/... block
                    target = next((t for t in reversed(prof.tree.children) if isinstance(t, Tree) and t.data in ("dns_beacon", "stage", "post_ex", "process_inject")), None)
                    if target is None:
                        prof.set_config_block("dns_beacon", c2p.DnsBeaconBlock(dns_idle="8.8.8.8"))
                        stmts.append({"path": ("dns-beacon",), "kw": ["dns_idle"], "args": ["8.8.8.8"], "vals": [b"8.8.8.8"], "rule": "x"})
                        prof.as_dict()
                        target = prof.tree.children[-1]
                    kwmap = {"dns_beacon": ("dns-beacon", "dns_ttl"), "stage": ("stage", "obfuscate"), "post_ex": ("post-ex", "pipename"), "process_inject": ("process-inject", "min_alloc")}
                    blk, kw = kwmap[str(target.data)]
                    target.children.append(Tree(kw, [Tree("string", [Token("STRING", '"' + mod[1] + '"')])]))
                    # source order: the new statement belongs to that block, i.e. after the block's existing statements
                    idx = max((i for i, st in enumerate(stmts) if st["path"] and st["path"][0] == blk), default=len(stmts) - 1)
                    # only exact when the target is the last block of that kind; keep it simple: rebuild expectation by position
                    stmts.insert(idx + 1, {"path": (blk,), "kw": [kw], "args": [mod[1]], "vals": [mod[1].encode()], "rule": "x"})
                elif kind == "replace":
                    # replace the value of the first global option in place
                    opt = next((t for t in prof.tree.children if isinstance(t, Tree) and t.data == "option"), None)
                    if opt is not None:
                        opt.children[1].children[0] = Token("STRING", '"' + mod[1] + '"')
                        name = str(opt.children[0])
                        first = next(st for st in stmts if st["path"] == () and st["kw"] == [name])
                        first["args"] = [mod[1]]
                        first["vals"] = [mod[1].encode()]
                elif kind == "mutate_view":
                    # the caller plays with the dictionary it was given: the profile has not changed, later views must not either
                    d = prof.as_dict()
                    how = mod[1]
                    if d:
                        k = sorted(d)[mod[2] % len(d)]
                        if how == "pop" and d[k]:
                            d[k].pop()
                        elif how == "del":
                            del d[k]
                        elif how == "reverse":
                            d[k].reverse()
                            d[k].append("x")
                    if how == "add":
                        d["bogus.key"] = ["x"]
                elif kind == "handle_block":
                    # a builder block attached earlier is modified through the handle the caller kept
                    blk = handles.get("dns")
                    if blk is None:
                        blk = c2p.DnsBeaconBlock(dns_idle="1.2.3.4")
                        prof.set_config_block("dns_beacon", blk)
                        handles["dns"] = blk
                        stmts.append({"path": ("dns-beacon",), "kw": ["dns_idle"], "args": ["1.2.3.4"], "vals": [b"1.2.3.4"], "rule": "x"})
                        for _ in range(mod[3]):  # reads between attaching and modifying
                            r = compare_dict(prof.as_dict(), stmts)
                            if r:
                                ctx.violation("history.tracks", f"after attaching a block: {r}", case)
                                return
                            if mod[3] > 1:
                                prof.as_text()
                    blk.set_option(mod[1], mod[2])
                    idx = max((i for i, st in enumerate(stmts) if st["path"] and st["path"][0] == "dns-beacon"), default=len(stmts) - 1)
                    stmts.insert(idx + 1, {"path": ("dns-beacon",), "kw": [mod[1]], "args": [mod[2]], "vals": [mod[2].encode()], "rule": "x"})
                elif kind == "handle_tree":
                    # a subtree handle taken from profile.tree BEFORE dictionary/text reads is modified after them
                    target = next((t for t in reversed(prof.tree.children) if isinstance(t, Tree) and t.data in ("dns_beacon", "stage", "post_ex", "process_inject")), None)
                    if target is not None:
                        for _ in range(mod[3]):
                            prof.as_dict()
                            prof.as_text()
                        kwmap = {"dns_beacon": ("dns-beacon", "dns_ttl"), "stage": ("stage", "obfuscate"), "post_ex": ("post-ex", "pipename"), "process_inject": ("process-inject", "min_alloc")}
                        blk, kw = kwmap[str(target.data)]
                        target.children.append(Tree(kw, [Tree("string", [Token("STRING", '"' + mod[1] + '"')])]))
                        idx = max((i for i, st in enumerate(stmts) if st["path"] and st["path"][0] == blk), default=len(stmts) - 1)
                        stmts.insert(idx + 1, {"path": (blk,), "kw": [kw], "args": [mod[1]], "vals": [mod[1].encode()], "rule": "x"})
                elif kind == "transform":
                    gb = c2p.HttpGetBlock()
                    gb.set_config_block("client", c2p.HttpOptionsBlock(metadata=c2p.DataTransformBlock(steps=["base64", ("prepend", mod[1]), ("header", "Cookie")])))
                    prof.set_config_block("http_get", gb)
                    p = ("http-get", "client", "metadata")
                    stmts += [{"path": p, "kw": ["base64"], "args": [], "vals": [], "rule": "transform_statement"},
                              {"path": p, "kw": ["prepend"], "args": [mod[1]], "vals": [mod[1].encode()], "rule": "transform_statement"},
                              {"path": p, "kw": ["header"], "args": ["Cookie"], "vals": [b"Cookie"], "rule": "termination_statement"}]
                for _ in range(mod[-1]):
                    d = prof.as_dict()
                    r = compare_dict(d, stmts)
                    if r:
                        ctx.violation("history.tracks", f"after modification #{i} {mod[:3]} the dictionary view is stale or wrong: {r}", case)
                        return
        except Exception as e:  # noqa: BLE001
            ctx.violation("history.tracks", f"{type(e).__name__}: {str(e)[:300]}", case)
            return
        ctx.ok(fp=(case["text"], repr(case["mods"])), case={k: v for k, v in case.items() if k != "statements"},
               classes=(f"hist:start={case['start']}", *{f"mod:{m[0]}" for m in case["mods"]}))
    elif op == "builder":
        ctx.mon("builder.equal")
        nodes = case["program"]
        text = program_text(nodes)
        try:
            parsed = c2p.C2Profile.from_text(text)
            built = c2p.C2Profile()
            program_build(nodes, built, c2p)
            t1, t2 = parsed.as_text(), built.as_text()
            d1, d2 = parsed.as_dict(), built.as_dict()
        except Exception as e:  # noqa: BLE001
            ctx.violation("builder.equal", f"{type(e).__name__}: {str(e)[:300]} for program text:\n{text[:400]}", case)
            return
        if built.tree != parsed.tree:
            ctx.violation("builder.equal", f"tree built through the API differs from the parsed tree for:\n{text[:600]}", case)
            return
        if t1 != t2 or d1 != d2:
            ctx.violation("builder.equal", f"text/dictionary of the built profile differs from the parsed one for:\n{text[:600]}", case)
            return
        r = compare_dict(d2, program_statements(nodes))
        if r:
            ctx.violation("dict.model", f"built profile: {r}", case)
            return
        ctx.ok(fp=text, case={"op": "builder", "text": text}, classes=tuple({f"builder:{n[1]}" for n in nodes}))
    elif op == "kwargs":
        # the keyword-argument forms of the builder classes and the list-based helper constructors
        ctx.mon("builder.equal")
        v = case["vals"]
        text = (
            f'set sleeptime "{v[0]}";\nset jitter "{v[1]}";\n'
            f'http-get {{\n set uri "{v[2]}";\n set verb "{v[3]}";\n client {{\n  header "{v[4]}" "{v[5]}";\n  parameter "{v[6]}" "{v[7]}";\n'
            f'  metadata {{\n   base64url;\n   prepend "{v[8]}";\n   header "{v[9]}";\n  }}\n }}\n server {{\n  header "{v[4]}" "{v[5]}";\n  output {{\n   mask;\n   print;\n  }}\n }}\n}}\n'
            f'process-inject {{\n set min_alloc "{v[10]}";\n execute {{\n  CreateThread "{v[11]}";\n  NtQueueApcThread-s;\n  SetThreadContext;\n  CreateRemoteThread "{v[11]}";\n  RtlCreateUserThread;\n }}\n}}\n'
            f'stage {{\n set userwx "{v[12]}";\n transform-x86 {{\n  prepend "{v[8]}";\n  strrep "{v[4]}" "{v[5]}";\n }}\n}}\n'
        )
        try:
            parsed = c2p.C2Profile.from_text(text)
            client = c2p.HttpOptionsBlock(header=[(v[4], v[5])], parameter=[(v[6], v[7])],
                                          metadata=c2p.DataTransformBlock(steps=["base64url", ("prepend", v[8]), ("header", v[9])]))
            server = c2p.HttpOptionsBlock(header=[(v[4], v[5])], output=c2p.DataTransformBlock(steps=["mask", "print"]))
            # (the empty cases of the list constructors build the same as the bare constructors)
            if c2p.ExecuteOptionsBlock.from_execute_list().tree != c2p.ExecuteOptionsBlock().tree or \
                    c2p.ExecuteOptionsBlock.from_execute_list([]).tree != c2p.ExecuteOptionsBlock().tree or \
                    c2p.DataTransformBlock(steps=None).tree != c2p.DataTransformBlock().tree:
                raise AssertionError("empty list constructor differs from the bare constructor")
            pinj = c2p.ProcessInjectBlock(min_alloc=v[10], execute=c2p.ExecuteOptionsBlock.from_execute_list(
                [("CreateThread", v[11]), "NtQueueApcThread-s", "SetThreadContext", ("CreateRemoteThread", v[11]), "RtlCreateUserThread"]))
            stage = c2p.StageBlock(userwx=v[12], transform_x86=c2p.StageTransformBlock(prepend=v[8], strrep=[(v[4], v[5])]))
            built = c2p.C2Profile(sleeptime=v[0], jitter=v[1], http_get=c2p.HttpGetBlock(uri=v[2], verb=v[3], client=client, server=server),
                                  process_inject=pinj, stage=stage)
            same = built.tree == parsed.tree and built.as_text() == parsed.as_text() and built.as_dict() == parsed.as_dict()
        except Exception as e:  # noqa: BLE001
            ctx.violation("builder.equal", f"keyword-argument builder forms: {type(e).__name__}: {str(e)[:300]}", case)
            return
        if not same:
            ctx.violation("builder.equal", f"profile built with keyword arguments differs from the parsed text:\n{built.as_text()[:500]}\n--- parsed ---\n{parsed.as_text()[:500]}", case)
            return
        d = built.as_dict()
        if d.get("http-get.client.metadata") != ["base64url", ("prepend", v[8].encode()), ("header", v[9].encode())] or d.get("sleeptime") != [v[0]]:
            ctx.violation("dict.model", f"kwargs-built profile: dictionary {d}", case)
            return
        ctx.ok(fp=("kwargs", tuple(v)), case=case, classes=("builder:kwargs",))
    elif op == "builder_bytes":
        # byte-string arguments handed to the builder must come back as the same bytes in the dictionary view,
        # for the built profile and for its text parsed again (literal spelling is the builder's choice)
        ctx.mon("builder.equal")
        b1, b2, b3, b4 = case["vals"]
        try:
            built = c2p.C2Profile()
            gb = c2p.HttpGetBlock()
            gb.set_config_block("client", c2p.HttpOptionsBlock(metadata=c2p.DataTransformBlock(steps=["mask", ("prepend", b1), ("append", b2), ("header", b3)])))
            built.set_config_block("http_get", gb)
            pi = c2p.ProcessInjectBlock()
            pi.set_config_block("execute", c2p.ExecuteOptionsBlock.from_execute_list([("CreateThread", b4), "SetThreadContext"]))
            built.set_config_block("process_inject", pi)
            d1 = built.as_dict()
            d2 = c2p.C2Profile.from_text(built.as_text()).as_dict()
        except Exception as e:  # noqa: BLE001
            ctx.violation("builder.equal", f"byte arguments {case['vals']!r}: {type(e).__name__}: {str(e)[:200]}", case)
            return
        want = {"http-get.client.metadata": ["mask", ("prepend", b1), ("append", b2), ("header", b3)], "process-inject.execute": [("CreateThread", b4), "SetThreadContext"]}
        for name, d in (("built", d1), ("built, printed and parsed again", d2)):
            if d != want:
                ctx.violation("builder.equal", f"{name} profile reports {d!r} for builder arguments {want!r}", case)
                return
        ctx.ok(fp=("bb", b1, b2, b3, b4), case=case, classes=("builder:bytes",))
    elif op == "builder_edge":
        # boundary forms of the builder: the '# dns_resolver' pseudo statement (a comment for every reader of the text)
        # and data-transform blocks without any statement
        ctx.mon("builder.equal")
        which, v = case["which"], case["vals"]
        try:
            built = c2p.C2Profile()
            if which == "dnscomment":
                kw = {"comment_dns_resolver": v[0]}
                if case.get("more"):
                    kw["dns_idle"] = v[1]
                built.set_option("sleeptime", v[2])
                built.set_config_block("dns_beacon", c2p.DnsBeaconBlock(**kw))
                want = [{"path": (), "kw": ["sleeptime"], "args": [v[2]], "vals": [v[2].encode()], "rule": "value"}]
                if case.get("more"):
                    want.append({"path": ("dns-beacon",), "kw": ["dns_idle"], "args": [v[1]], "vals": [v[1].encode()], "rule": "x"})
                text = None
            elif which == "written-tail":
                # str values are literal text as written: also when they end in a backslash in front of a line feed, hold
                # one in the middle, or end in an escaped backslash and a line feed (built == parsed, whatever they mean)
                md = c2p.DataTransformBlock()
                md.add_step("prepend", v[4])
                md.add_termination("print", None)
                built.set_option("useragent", v[0])
                built.set_config_block("dns_beacon", c2p.DnsBeaconBlock(dns_idle=v[1]))
                built.set_config_block("http_get", c2p.HttpGetBlock(client=c2p.HttpOptionsBlock(header=[(v[2], v[3])], metadata=md)))
                want = None
                text = (f'set useragent "{v[0]}"; dns-beacon {{ set dns_idle "{v[1]}"; }} '
                        f'http-get {{ client {{ header "{v[2]}" "{v[3]}"; metadata {{ prepend "{v[4]}"; print; }} }} }}')
            elif which == "emptydt-termination-later":
                # attached empty, then only termination statements are added through the handle
                out = c2p.DataTransformBlock()
                built.set_config_block("http_get", c2p.HttpGetBlock(uri=v[0], server=c2p.HttpOptionsBlock(header=[(v[1], v[2])], output=out)))
                if case.get("more"):
                    built.as_dict()
                out.add_termination("header", v[1])
                p_ = ("http-get", "server", "output")
                want = [{"path": ("http-get",), "kw": ["uri"], "args": [v[0]], "vals": [v[0].encode()], "rule": "x"},
                        {"path": ("http-get", "server"), "kw": ["header"], "args": [v[1], v[2]], "vals": [v[1].encode(), v[2].encode()], "rule": "x"},
                        {"path": p_, "kw": ["header"], "args": [v[1]], "vals": [v[1].encode()], "rule": "termination_statement"}]
                text = f'http-get {{ set uri "{v[0]}"; server {{ header "{v[1]}" "{v[2]}"; output {{ header "{v[1]}"; }} }} }}'
            elif which == "emptydt-filled-later":
                # a transform block attached while still empty and filled through the handle afterwards, with a read in between
                out = c2p.DataTransformBlock()
                built.set_config_block("http_get", c2p.HttpGetBlock(uri=v[0], server=c2p.HttpOptionsBlock(header=[(v[1], v[2])], output=out)))
                if case.get("more"):
                    built.as_dict()
                    built.as_text()
                out.add_step("base64", None)
                out.add_step("prepend", v[1])
                out.add_termination("print", None)
                p_ = ("http-get", "server", "output")
                want = [{"path": ("http-get",), "kw": ["uri"], "args": [v[0]], "vals": [v[0].encode()], "rule": "x"},
                        {"path": ("http-get", "server"), "kw": ["header"], "args": [v[1], v[2]], "vals": [v[1].encode(), v[2].encode()], "rule": "x"},
                        {"path": p_, "kw": ["base64"], "args": [], "vals": [], "rule": "transform_statement"},
                        {"path": p_, "kw": ["prepend"], "args": [v[1]], "vals": [v[1].encode()], "rule": "transform_statement"},
                        {"path": p_, "kw": ["print"], "args": [], "vals": [], "rule": "termination_statement"}]
                text = f'http-get {{ set uri "{v[0]}"; server {{ header "{v[1]}" "{v[2]}"; output {{ base64; prepend "{v[1]}"; print; }} }} }}'
            else:
                steps = None if which == "emptydt-none" else []
                built.set_config_block("http_get", c2p.HttpGetBlock(uri=v[0], server=c2p.HttpOptionsBlock(header=[(v[1], v[2])], output=c2p.DataTransformBlock(steps=steps))))
                want = [{"path": ("http-get",), "kw": ["uri"], "args": [v[0]], "vals": [v[0].encode()], "rule": "x"},
                        {"path": ("http-get", "server"), "kw": ["header"], "args": [v[1], v[2]], "vals": [v[1].encode(), v[2].encode()], "rule": "x"}]
                text = f'http-get {{ set uri "{v[0]}"; server {{ header "{v[1]}" "{v[2]}"; output {{ }} }} }}'
            d1 = built.as_dict()
            t1 = built.as_text()
            reparsed = c2p.C2Profile.from_text(t1)
            d2 = reparsed.as_dict()
            parsed = c2p.C2Profile.from_text(text) if text else None
        except Exception as e:  # noqa: BLE001
            ctx.violation("builder.equal", f"builder edge '{which}' {v!r}: {type(e).__name__}: {str(e)[:200]}", case)
            return
        r = (compare_dict(d1, want) or compare_dict(d2, want)) if want is not None else None
        if r:
            ctx.violation("dict.model", f"builder edge '{which}': {r}", case)
            return
        if parsed is not None and (parsed.tree != built.tree or parsed.as_text() != t1 or parsed.as_dict() != d1):
            ctx.violation("builder.equal", f"builder edge '{which}': built profile differs from the parsed text {text!r} (built tree {built.tree!r:.300})", case)
            return
        if which == "dnscomment" and f'# dns_resolver "{v[0]}";' not in t1:
            ctx.violation("builder.equal", f"the resolver comment is missing from the text: {t1!r:.200}", case)
            return
        ctx.ok(fp=("edge", which, tuple(v), case.get("more")), case=case, classes=(f"builder:{which}",))
    elif op == "gate":
        ctx.mon("builder.equal")
        names = case["names"]
        text = "stage {\n beacon_gate {\n" + "".join(f"  {n};\n" for n in names) + " }\n}\n"
        try:
            parsed = c2p.C2Profile.from_text(text)
            stage = c2p.StageBlock()
            stage.set_config_block("beacon_gate", c2p.BeaconGateBlock.from_beacon_gate_option_strings(names))
            built = c2p.C2Profile()
            built.set_config_block("stage", stage)
            same = built.tree == parsed.tree and built.as_text() == parsed.as_text() and built.as_dict() == parsed.as_dict()
        except Exception as e:  # noqa: BLE001
            ctx.violation("builder.equal", f"BeaconGate list {names}: {type(e).__name__}: {str(e)[:200]}", case)
            return
        if not same or parsed.as_dict().get("stage.beacon_gate") != names:
            ctx.violation("builder.equal", f"BeaconGate list {names}: built and parsed profile differ (built tree {built.tree!r:.200} vs parsed {parsed.tree!r:.200})", case)
            return
        ctx.ok(fp=("gate", tuple(names)), case=case, classes=("builder:beacon_gate_strings",))
    else:
        raise ValueError(op)


def plan(tier, seed):
    q = tier == "quick"
    shards = [{"kind": "dict", "n": 45 if q else 2500} for _ in range(8)]
    shards += [{"kind": "history", "n": 25 if q else 1500} for _ in range(3)]
    shards += [{"kind": "builder", "n": 30 if q else 2000} for _ in range(4)]
    shards.append({"kind": "gate"})
    for s in shards:
        s["budget_s"] = 50 if q else 2400
        s["timeout_s"] = 300 if q else 5400
    return shards


def run_shard(shard, ctx):
    rng = ctx.rng
    kind = shard["kind"]
    if kind == "dict":
        chains = PR.production_chains()
        for i in range(shard["n"]):
            if ctx.out_of_time():
                break
            if i % 3 == 0:
                s = PR.gen_profile(rng, force=rng.choice(chains), hostile=True)
            else:
                s = PR.gen_profile(rng, max_statements=rng.choice([5, 20, 40]), hostile=rng.random() < 0.7)
            check_case({"op": "dict", "text": PR.render(s.tokens, rng), "statements": s.statements, "reads": rng.choice([1, 1, 3])}, ctx)
    elif kind == "history":
        for _ in range(shard["n"]):
            if ctx.out_of_time():
                break
            s = PR.gen_profile(rng, max_statements=10, hostile=False, variants=False)
            mods = []
            for _ in range(rng.randrange(1, 9)):
                r = rng.random()
                if r < 0.4:
                    mods.append(("set_option", rng.choice(LANG["OPTION"]), _val(rng), rng.choice([1, 1, 2])))
                elif r < 0.6:
                    mods.append(("tree", rng.choice(LANG["OPTION"]), _val(rng), rng.choice([1, 2])))
                elif r < 0.7:
                    mods.append(("nested", _val(rng), None, rng.choice([1, 2])))
                elif r < 0.755:
                    mods.append(("replace", _val(rng), None, rng.choice([1, 2])))
                elif r < 0.82:
                    mods.append(("mutate_view", rng.choice(["pop", "del", "reverse", "add"]), rng.randrange(0, 50), rng.choice([1, 2])))
                elif r < 0.86:
                    mods.append(("handle_block", rng.choice(["dns_ttl", "maxdns", "dns_sleep", "dns_stager_prepend"]), _val(rng), rng.choice([0, 1, 2]), rng.choice([1, 2])))
                elif r < 0.89:
                    mods.append(("handle_tree", _val(rng), None, rng.choice([1, 2]), rng.choice([1, 2])))
                elif r < 0.94:
                    mods.append(("block", "dns_beacon", [(rng.choice(["dns_idle", "maxdns", "beacon", "dns_ttl"]), _val(rng)) for _ in range(rng.randrange(1, 4))], rng.choice([1, 2])))
                else:
                    mods.append(("transform", _val(rng), None, rng.choice([1, 2])))
            check_case({"op": "history", "text": PR.render(s.tokens, rng, noise=False), "statements": s.statements, "start": rng.choice(["parsed", "parsed", "empty"]),
                        "mods": mods, "seed": rng.getrandbits(32)}, ctx)
    elif kind == "builder":
        for i in range(shard["n"]):
            if ctx.out_of_time():
                break
            _WRITTEN[0] = i % 3 == 0  # every third program uses str values with quotes, backslashes and escape sequences
            try:
                prog = gen_program(rng)
            finally:
                _WRITTEN[0] = False
            check_case({"op": "builder", "program": prog}, ctx)
    elif kind == "gate":
        alpha = [b"\\", b"'", b'"', b"a", b"\n", b";", b"\xff", b"\x00", b"x", b"{"]
        for i in range(60):
            vals = [b"".join(rng.choice(alpha) for _ in range(rng.randrange(0, 6))) if rng.random() < 0.7 else rng.randbytes(rng.randrange(0, 12)) for _ in range(4)]
            if i < 4:
                vals[i] = [b"\\'", b"'\\", b"\\\"", b"\\'\\'"][i]
            check_case({"op": "builder_bytes", "vals": vals}, ctx)
        for i in range(20):
            check_case({"op": "builder_edge", "which": ["dnscomment", "emptydt-none", "emptydt-list", "emptydt-filled-later", "emptydt-termination-later"][i % 5], "more": (i // 5) % 2 == 0,
                        "vals": [_val(rng) or "x" for _ in range(3)]}, ctx)
        tails = ["\\\n", "a\\\nb", "\\\\\n", "\\n\n", "x\\\n\\\n", "\n", "\\\r\n"]
        for i in range(16):
            check_case({"op": "builder_edge", "which": "written-tail", "vals": [("w%d" % k) + tails[(i + k * 3) % len(tails)] if (i + k) % 2 == 0 or i < 8 else "plain%d" % k for k in range(5)]}, ctx)
        for _ in range(12):
            check_case({"op": "kwargs", "vals": [_val(rng) or "x" for _ in range(13)]}, ctx)
        names = [_kws(a)[0] for a in LANG["beacon_gate_options"]]
        for n in names:
            check_case({"op": "gate", "names": [n]}, ctx)
        for _ in range(20):
            check_case({"op": "gate", "names": rng.sample(names, rng.randrange(1, 8))}, ctx)
    else:
        raise ValueError(kind)


LEVEL_TEXT = (
    "Exploration against a reference dictionary: for hundreds (thorough: ~20 000) of generated profiles the dictionary that "
    "follows from the generator's model (block path incl. variant, keyword, values in source order, pairs as 2-tuples, "
    "decoded bytes on the ten list paths) is compared with as_dict(); modification histories interleave set_option / "
    "set_config_block / direct tree edits with reads and require the view to track the model after every step; random "
    "builder programs over every block kind are replayed through the ConfigBlock API and compared (tree, text, dictionary) "
    "with the same profile parsed from reference-rendered text."
)
LEVEL_NOTE = "Held on the profiles/histories explored; trusted base: the frozen language table and the dictionary model in this module."
TECHNIQUE = "reference-model runtime monitor (dictionary derived from the generator's model) + modification/read history checker + builder-vs-parser differential"
