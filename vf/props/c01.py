"""C01 - beacon configuration extraction is exact and complete.

Monitor: a naive bytes.find model of "first block in (view, key-priority, file) order" computed on the
very payload bytes, beside BeaconConfig.from_bytes / from_file / from_path; read-buffer sizes are varied
through the io proxy in the library modules; the XorEncodedFile.read contract stays armed."""

from __future__ import annotations

import io
import struct
import os
import tempfile

from vf import contracts, core
from vf.ref import payload as P
from vf.ref import tlv

ID = "C01"
LEVEL = "exploration"
RULE = (
    "a case is (payload bytes, key list or default, all-keys flag, read-buffer size). Payloads are built in layers: "
    "settings list starting with the protocol setting -> zero-padded 4096-byte block -> XOR with a key 0x00..0xff -> "
    "embedded in filler (random / zero / text / key byte) at an offset drawn from {0, j*bs+d for d in -8..8, cut by end "
    "of file, random}, optionally inside a synthetic PE section, optionally XorEncoded (random stub, nonce); 0..3 decoy "
    "blocks with different settings under other keys, other offsets or in the raw view of an encoded stage. Buffer sizes "
    "1,2,3,5,7,8,64,4096,8191,8192,8193. Non-trivial: a block is present under the tried keys and (its offset is within 8 "
    "bytes of a buffer boundary, or a decoy is present, or the container is not raw). Distinct = distinct (payload, keys, "
    "all-keys, buffer size)."
)
ASSUMPTIONS = [
    "the left-over keys of all-keys mode are tried 'most common byte first' (bytes filling aligned 4-byte groups of the decoded payload, as iter_beacon_config_blocks documents); that order is judged in the dominant-key class (one candidate's key byte pads a whole 4096-byte block, the other candidates' key bytes fill no group) and in the priority class (two padded blocks, the counts of complete aligned groups differ by 1..59; any buffer size); elsewhere any left-over-key block of the first view that has one is accepted, file order within one key is required",
    "filler contains no ff ff ff (it would add end-of-stub candidates to XorEncoded detection)",
]
REQUIRED_MONITORS = ["model.block", "model.novalue", "constructors.agree", "repeat.other_keys", "XorEncodedFile.read.position", "history.independent"]

HDR = b"\x00\x01\x00\x01\x00\x02\x00"
DEFAULT_KEYS = [b"\x69", b"\x2e", b"\x00"]


def naive_first(view, keys):
    for k in keys:
        p = view.find(P.rx1(HDR, k[0]))
        if p != -1:
            return p, k
    return None


def expected(views, keys, allk):
    """-> ("one", vname, p, key) | ("any", [(vname, p, key), ...]) | None"""
    klist = keys or DEFAULT_KEYS
    for vname, v in views:
        r = naive_first(v, klist)
        if r:
            return ("one", [(vname, r[0], r[1])])
    if allk:
        left = [bytes([x]) for x in range(256) if bytes([x]) not in klist]
        for vname, v in views:
            cands = []
            for k in left:
                p = v.find(P.rx1(HDR, k[0]))
                if p != -1:
                    cands.append((vname, p, k))
            if cands:
                return ("any", cands)
    return None


def extract(how, payload, keys, allk, beacon):
    if how == "bytes":
        return beacon.BeaconConfig.from_bytes(payload, xor_keys=keys, all_xor_keys=allk)
    if how == "file":
        return beacon.BeaconConfig.from_file(io.BytesIO(payload), xor_keys=keys, all_xor_keys=allk)
    fd, tmp = tempfile.mkstemp(prefix="vf_c01_")
    try:
        os.write(fd, payload)
        os.close(fd)
        return beacon.BeaconConfig.from_path(tmp, xor_keys=keys, all_xor_keys=allk)
    finally:
        os.unlink(tmp)


def check_history(case, ctx):
    """Several payloads analysed one after the other in the same process, through one re-filled file object and through
    fresh objects: every extraction must be what the model says for that payload alone (no verdict of an earlier analysis
    may be applied to a later payload)."""
    from dissect.cobaltstrike import beacon

    ctx.mon("history.independent")
    fh = io.BytesIO()
    for i, step in enumerate(case["steps"]):
        payload = step["payload"]
        for how in ("same-object", "fresh"):
            if how == "same-object":
                fh.seek(0)
                fh.truncate()
                fh.write(payload)
                fh.seek(0)
                f = fh
            else:
                f = io.BytesIO(payload)
            try:
                c = beacon.BeaconConfig.from_file(f)
                got = ("ok", bytes(c.config_block)[: len(step["block"])], c.xorkey, c.guardrails is not None)
            except ValueError:
                got = ("ValueError",)
            want = ("ok", step["block"], step["key"], step["guarded"])
            if got != want:
                ctx.violation("history.independent", f"payload #{i} ({step['what']}, analysed through {how} after {i} other payloads): got {core.short(got, 80)}, alone it gives "
                              f"{core.short(want, 80)}", case)
                return
    ctx.ok(fp=("hist", tuple(s_["payload"] for s_ in case["steps"])), nontrivial=True, case={"op": "history", "steps": [s_["what"] for s_ in case["steps"]]},
           classes=("history:" + ">".join(s_["what"] for s_ in case["steps"]),))


def gen_history(rng):
    cfg = (tlv.short(1, 8) + tlv.short(2, 4444) + tlv.S(26, 3, b"GET\0")).ljust(6144, b"\0")
    envkey = rng.choice([b"GGGGGGG-WS01", b".......lan", b"GGGGGGGG", bytes([0x47]) * 7 + rng.randbytes(5)])
    pre = rng.randrange(0, 3000)
    gb, _ = P.guard_block(rng, cfg.rstrip(b"\0") + b"\0\0", envkey, [(5, 1, b"\x12\x34")])
    guarded = {"what": "guardrails", "payload": P.filler(rng, pre) + gb + P.filler(rng, rng.randrange(0, 50)), "block": (cfg.rstrip(b"\0") + b"\0\0").ljust(6144, b"\0"),
               "key": b"\x2e", "guarded": True}
    steps = [guarded]
    for _ in range(rng.randrange(1, 3)):
        key = rng.choice([0x69, 0x2E, 0x00])
        blk = (tlv.short(1, 0) + tlv.short(2, rng.randrange(1, 65536)) + tlv.S(3, 2, rng.randbytes(4))).ljust(4096, b"\0")
        off = pre + rng.randrange(0, 8192)  # inside the offset range that the protected area occupied in the earlier payload
        steps.append({"what": "plain", "payload": P.filler(rng, off, "random") + P.rx1(blk, key) + P.filler(rng, rng.randrange(0, 50)), "block": blk, "key": bytes([key]), "guarded": False})
    if rng.random() < 0.5:
        steps.append(guarded)
    return {"op": "history", "steps": steps}


def check_case(case, ctx):
    if case.get("op") == "history":
        return check_history(case, ctx)
    from dissect.cobaltstrike import beacon

    contracts.install_xordecode()
    contracts.take()
    payload, keys, allk, bs = case["payload"], case["keys"], case["allk"], case["bs"]
    views = [(n, v) for n, v in case["views"]]
    exp = expected(views, keys, allk)
    if case.get("meta", {}).get("dominant") is not None and exp is not None and exp[0] == "any":
        dom = [c for c in exp[1] if c[2] == case["meta"]["dominant"]]
        if dom:
            exp = ("one", dom[:1])
    before = contracts.evaluations["XorEncodedFile.read.position"]
    results = {}
    core.set_buffer_size(bs)
    try:
        for how in case["hows"]:
            try:
                c = extract(how, payload, keys, allk, beacon)
                results[how] = ("ok", c)
            except ValueError as e:
                results[how] = ("ValueError", str(e))
            except Exception as e:  # noqa: BLE001
                results[how] = ("exception", f"{type(e).__name__}: {e}")
    finally:
        core.set_buffer_size(None)
    ctx.mon("XorEncodedFile.read.position", contracts.evaluations["XorEncodedFile.read.position"] - before)
    br = contracts.take()
    if br:
        ctx.violation(br[0][0], br[0][1], case)
        return
    vd = dict(views)
    for how, (st, c) in results.items():
        if st == "exception":
            ctx.violation("extract.exception", f"from_{how}: {c}", case)
            return
        if exp is None:
            ctx.mon("model.novalue")
            if st != "ValueError":
                ctx.violation("model.novalue", f"from_{how}: no block under the tried keys, yet a configuration was returned (xorkey={c.xorkey!r}, xorencoded={c.xorencoded})", case)
                return
            continue
        ctx.mon("model.block")
        if st != "ok":
            vname, p, k = exp[1][0]
            ctx.violation("model.block", f"from_{how}: ValueError although a block lies at offset {p} of the {vname} view under key {k.hex()} (bs={bs}, keys={keys}, all={allk})", case)
            return
        good = False
        for vname, p, k in exp[1]:
            blk = P.rx1(vd[vname][p : p + 4096], k[0])
            if bytes(c.config_block) == blk and c.xorkey == k and c.xorencoded is (vname == "xor"):
                ref = tlv.ref_parse(blk)
                got = [(s.index.value, s.type.value, s.length, bytes(s.value)) for s in c.settings_tuple]
                if got == ref:
                    good = True
                    break
        if not good:
            vname, p, k = exp[1][0]
            ctx.violation(
                "model.block",
                f"from_{how}: got xorkey={c.xorkey!r} xorencoded={c.xorencoded} block[:16]={bytes(c.config_block[:16]).hex()} len={len(c.config_block)}; "
                f"first block in (view, key, file) order: view={vname} offset={p} key={k.hex()} ({'exact' if exp[0] == 'one' else 'any of %d left-over-key candidates' % len(exp[1])}) bs={bs} keys={keys} all={allk}",
                case,
            )
            return
    if len(results) > 1:
        ctx.mon("constructors.agree")
        sig = set()
        for how, (st, c) in results.items():
            sig.add((st,) if st != "ok" else (st, bytes(c.config_block), c.xorkey, c.xorencoded))
        if len(sig) != 1:
            ctx.violation("constructors.agree", f"from_bytes/from_file/from_path disagree: {[(h, r[0]) for h, r in results.items()]}", case)
            return
    if case.get("again"):
        # extraction is a function of (payload, keys): a second call with the default keys must follow those keys
        ctx.mon("repeat.other_keys")
        exp2 = expected(views, None, False)
        core.set_buffer_size(bs)
        try:
            try:
                c2_ = extract("bytes", payload, None, False, beacon)
                st2 = "ok"
            except ValueError:
                c2_, st2 = None, "ValueError"
            except Exception as e:  # noqa: BLE001
                ctx.violation("extract.exception", f"second extraction: {type(e).__name__}: {e}", case)
                return
        finally:
            core.set_buffer_size(None)
        if (exp2 is None) != (st2 == "ValueError"):
            ctx.violation("repeat.other_keys", f"second extraction of the same payload with the default keys: {st2}, model expects {'nothing' if exp2 is None else exp2[1][0]}", case)
            return
        if exp2 is not None:
            vname, p_, k_ = exp2[1][0]
            if bytes(c2_.config_block) != P.rx1(vd[vname][p_ : p_ + 4096], k_[0]) or c2_.xorkey != k_:
                ctx.violation("repeat.other_keys", f"second extraction with the default keys returned key {c2_.xorkey!r}, model expects key {k_.hex()} at {p_}", case)
                return
    meta = case.get("meta", {})
    nt = exp is not None and (meta.get("near_boundary") or meta.get("decoys", 0) > 0 or meta.get("layout") != "raw")
    ctx.ok(fp=(payload, repr(keys), allk, bs), nontrivial=bool(nt),
           case={"layout": meta.get("layout"), "bs": bs, "keys": keys, "allk": allk, "payload_len": len(payload), "meta": meta,
                 "expected": None if exp is None else [(v, p, k) for v, p, k in exp[1][:3]]},
           classes=(f"layout:{meta.get('layout')}", f"bs:{bs}", "expect:none" if exp is None else f"expect:{exp[0]}",
                    f"keys:{'default' if keys is None else len(keys)}", f"allkeys:{allk}", f"decoys:{meta.get('decoys', 0)}",
                    f"place:{meta.get('place')}", f"fill:{meta.get('fill')}", f"guardlike-seam:{meta.get('guardlike')}"))


# ---- generator ------------------------------------------------------------------------------------------------
def mkcfg(rng):
    out = tlv.short(1, rng.choice([0, 1, 2, 4, 8]))
    for _ in range(rng.randrange(0, 10)):
        out += tlv.S(rng.choice([2, 3, 5, 9, 10, 26, 37, 1234]), rng.choice([1, 2, 3]), rng.randbytes(rng.choice([2, 4, 7, 30])))
    return out


def gen_case(rng, tier, force_key=None):
    bs = rng.choice([1, 2, 3, 5, 7, 8, 64, 4096, None, 8192, 8191, 8193])
    eff_bs = bs or 8192
    small = eff_bs < 64
    key = rng.randrange(256) if force_key is None else force_key
    r = rng.random()
    if r < 0.35:
        keys = None
    elif r < 0.6:
        keys = [bytes([key])]
    elif r < 0.8:
        keys = [bytes([rng.randrange(256)]), bytes([key])]
    else:
        keys = rng.choice([[b"\x00", b"\x69"], [b"\x2e", b"\x00", bytes([key]), b"\x69"], [bytes([rng.randrange(256)]) for _ in range(3)]])
    layout = rng.choice(["raw", "raw", "pe", "xorpe", "xorpe"])
    allk = rng.random() < (0.08 if layout == "xorpe" else 0.3)
    if layout == "xorpe" and small:
        allk = False  # 254 extra passes through the per-byte decoding view: minutes, no new behaviour
    fill = rng.choice(["random", "random", "zero", "text", f"byte:{key}"])
    if fill == "byte:255":
        fill = "zero"
    n = rng.choice([0, 10, 300]) if small else rng.choice([0, 10, eff_bs, 20000])
    if layout == "xorpe" and (allk or small):
        n = min(n, 300)
    body = bytearray(P.filler(rng, n + rng.randrange(0, 200 if small or layout == "xorpe" else 9000), fill))
    ncfg = rng.choice([1, 1, 1, 2, 3, 4])
    near = False
    place = None
    guardlike = False
    for ci in range(ncfg):
        k = key if ci == 0 else rng.choice([rng.randrange(256), 0x69, 0x2E, 0x00, key])
        how = rng.choice(["zero", "end", "boundary", "random", "boundary"])
        if how == "zero":
            off = 0
        elif how == "end":
            off = max(len(body) - rng.randrange(7, 60), 0)
        elif how == "boundary":
            off = eff_bs * rng.randrange(0, 4) + rng.randrange(-8, 9)
        else:
            off = rng.randrange(0, len(body) + 1)
        off = max(0, min(off, len(body)))
        blk = P.rx1(mkcfg(rng).ljust(4096, b"\0"), k)
        if rng.random() < 0.12:
            body[off:] = blk[: rng.randrange(7, 4096)]
        else:
            body[off : off + 4096] = blk
        if ci == 0:
            place = how
            near = min(off % eff_bs, eff_bs - off % eff_bs) <= 8
            if rng.random() < 0.03:  # (each one costs a full environmental-key search, ~0.4 s)
                # bytes 6138 after the block start that look like the seam between a Guardrails-masked configuration and its
                # guard configuration (reverse(a) ^ b is a guard option header under key 0x8a): the block is still a plain block
                if len(body) < off + 6150:
                    body += P.filler(rng, off + 6150 - len(body), fill)
                a = rng.randbytes(6)
                g = rng.choice([b"\x00\x05\x00\x01\x00\x02", b"\x00\x06\x00\x01\x00\x02", b"\x00\x07\x00\x01\x00\x02", b"\x00\x08\x00\x02\x00\x04"])
                body[off + 6138 : off + 6150] = a + bytes(x ^ y ^ 0x8A for x, y in zip(a[::-1], g))
                guardlike = True
            elif rng.random() < 0.015 and how != "zero" and off >= 8:
                # a complete, checksum-consistent guard configuration for a 6144-byte "area" that starts a few bytes BEFORE the
                # block: read as Guardrails (key = the block's padding byte ^ 0x2e, twice) the area does not start with a
                # configuration header, so it is no protected configuration - the block is still a plain block
                d = rng.randrange(1, min(off, 200) + 1)
                a0 = off - d
                if len(body) < a0 + 6144 + 24:
                    body += P.filler(rng, a0 + 6144 + 24 - len(body), "zero")
                area = bytes(body[a0 : a0 + 6144])
                kk = bytes([k ^ 0x2E]) * 2
                unguarded = P.rxk(P.rx1(area, 0x2E), kk)
                g = tlv.S(5, 1, b"\x12\x34") + tlv.S(9, 2, struct.pack(">I", P.payload_checksum(unguarded) + 1)) + b"\0\0"
                body[a0 + 6144 : a0 + 6144 + len(g)] = bytes(x ^ y ^ 0x8A for x, y in zip(g, area[::-1]))
                guardlike = "crafted"
    raw = bytes(body)
    if raw[:1100].count(b"\xff\xff\xff") > 4:
        # every ff ff ff in the first 1 KB is an end-of-stub candidate that costs 1024 header probes (minutes in
        # total, see DESIGN.md "cost pathology"): keep such blocks (key 0xff) out of the detection range
        raw = P.filler(rng, 1100) + raw
    meta = {"layout": layout, "decoys": ncfg - 1, "near_boundary": near, "place": place, "fill": fill.split(":")[0], "guardlike": guardlike}
    if layout == "raw":
        payload, views = raw, [("raw", raw)]
    else:
        lf, pre = 0x80, b""
        if layout != "pe" and rng.random() < 0.25:
            # a stage with prepended bytes in front of the image and a large e_lfanew: each below 1024, their sum beyond it
            lf = rng.choice([0x80, 0x200, 0x3E0, 1000])
            pre = (b"\x90" if rng.random() < 0.5 else b"\x41") * rng.choice([64, 300, 600, 900, 1000])
            meta["prepend"] = f"{len(pre)}+lfanew{lf}"
        img, info = P.build_pe(rng, arch=rng.choice(["x86", "x64"]), data=raw, nsec=rng.randrange(1, 5), lfanew=lf)
        img = pre + img
        if layout == "pe":
            payload, views = img, [("raw", img)]
        else:
            trailing = b""
            if rng.random() < 0.25:  # a decoy in the raw view, after the encoded region
                trailing = P.filler(rng, rng.randrange(0, 40)) + P.rx1(mkcfg(rng).ljust(4096, b"\0"), rng.choice([0x69, 0x2E, key]))
                meta["decoys"] += 1
            stub_len, marker = rng.randrange(0, 300), True
            if rng.random() < 0.2:
                # the nonce at the far end of the documented detection range (offsets 0..1023), with and without the marker
                marker = bool(trailing) or rng.random() < 0.4
                stub_len = rng.randrange(1008, 1024) - (3 if marker else 0)
                meta["stub"] = f"far:{'marker' if marker else 'size-only'}"
            payload, off = P.xorencode(img, rng.randbytes(4), stub=P.filler(rng, stub_len), marker=marker,
                                       size_ok=not trailing, trailing=trailing)
            views = [("xor", img + _decoded_trailing(payload, off, len(img))), ("raw", payload)]
    hows = ["bytes"]
    r = rng.random()
    if r < 0.15:
        hows = ["bytes", "file", "path"]
    elif r < 0.3:
        hows = ["file"]
    elif r < 0.4:
        hows = ["path"]
    if guardlike:
        bs = None  # the environmental-key search that the seam triggers reads 255 times through the same buffer size: minutes with tiny buffers
    return {"payload": payload, "keys": keys, "allk": allk, "bs": bs, "views": views, "hows": hows, "meta": meta,
            "again": keys is not None and rng.random() < 0.3}


def gen_dominant(rng):
    """All-keys mode, two candidate blocks under left-over keys: a short unpadded one under key A first in the file, a
    fully padded one under key B > A after it.  B's byte fills ~1000 aligned groups, A's none: B has priority, in every
    container."""
    a = rng.choice([x for x in range(1, 200) if x not in (0x69, 0x2E)])
    b = rng.choice([x for x in range(a + 1, 255) if x not in (0x69, 0x2E)])
    short = P.rx1((tlv.short(1, 0) + tlv.short(2, 1111) + tlv.S(3, 2, rng.randbytes(4)) + tlv.S(26, 3, bytes(rng.randrange(0x41, 0x5B) for _ in range(40)))), a)
    full = P.rx1((tlv.short(1, 8) + tlv.short(2, 2222)).ljust(4096, b"\0"), b)
    fill = lambda n: bytes(rng.choice(b"ABCDEFGHIJKLMNOP") for _ in range(n))  # noqa: E731
    body = fill(rng.randrange(0, 40)) + short + fill(rng.randrange(4, 40)) + full + fill(rng.randrange(0, 40))
    # no aligned or unaligned run of four A bytes anywhere
    assert bytes([a]) * 4 not in body
    layout = rng.choice(["raw", "raw", "pe", "xorpe"])
    meta = {"layout": layout, "decoys": 1, "near_boundary": False, "place": "dominant", "fill": "text", "dominant": bytes([b])}
    if layout == "raw":
        payload, views = body, [("raw", body)]
    else:
        img, info = P.build_pe(rng, arch=rng.choice(["x86", "x64"]), data=body, nsec=rng.randrange(1, 4))
        if bytes([a]) * 4 in img:
            return gen_dominant(rng)
        if layout == "pe":
            payload, views = img, [("raw", img)]
        else:
            payload, off = P.xorencode(img, rng.randbytes(4), stub=P.filler(rng, rng.randrange(0, 100)), marker=True)
            views = [("xor", img), ("raw", payload)]
    return {"payload": payload, "keys": rng.choice([None, [b"\x69"], [b"\x00", b"\x2e"]]), "allk": True, "bs": None, "views": views,
            "hows": [rng.choice(["bytes", "file", "path"])], "meta": meta, "again": False}


def count_groups(data, byte):
    """aligned, complete 4-byte groups of the payload that consist of `byte`"""
    g = bytes([byte]) * 4
    return sum(1 for i in range(0, len(data) - 3, 4) if data[i : i + 4] == g)


def gen_priority(rng):
    """All-keys mode, two fully padded blocks under left-over keys A < B whose byte-frequency differs by a small margin in
    B's favour (B's byte fills a few more aligned 4-byte groups of the payload): B has priority - for every read-buffer
    size, since the payload is the same."""
    a = rng.choice([x for x in range(1, 200) if x not in (0x69, 0x2E)])
    b = rng.choice([x for x in range(a + 1, 255) if x not in (0x69, 0x2E)])
    ba = P.rx1((tlv.short(1, 0) + tlv.short(2, 1111) + tlv.S(3, 2, rng.randbytes(4))).ljust(4096, b"\0"), a)
    bb = P.rx1((tlv.short(1, 8) + tlv.short(2, 2222) + tlv.S(26, 3, rng.randbytes(rng.randrange(4, 40)))).ljust(4096, b"\0"), b)
    body = bytearray(ba + bb if rng.random() < 0.5 else bb + ba)
    margin = rng.randrange(1, 60)
    diff = count_groups(body, b) - count_groups(body, a)
    # groups of the key byte separated by other bytes: each one counts exactly when it is read as one aligned group
    body += (bytes([b]) * 4 + b"\x01\x02\x03\x04") * max(margin - diff, 0) + (bytes([a]) * 4 + b"\x01\x02\x03\x04") * max(diff - margin, 0)
    body = bytes(body)
    assert count_groups(body, b) - count_groups(body, a) == margin
    bs = rng.choice([None, 8191, 8190, 8189, 8193, 4098, 4096, 1001, 100, 64])
    meta = {"layout": "raw", "decoys": 1, "near_boundary": False, "place": "priority", "fill": "none", "dominant": bytes([b]), "margin": margin}
    return {"payload": body, "keys": rng.choice([None, [b"\x69"]]), "allk": True, "bs": bs, "views": [("raw", body)],
            "hows": [rng.choice(["bytes", "file"])], "meta": meta, "again": False}


def _decoded_trailing(enc, off, plen):
    start = off + 8 + plen
    out = bytearray()
    for i in range(start, len(enc)):
        j = i - 4
        prev = enc[j] if j >= off + 8 else enc[off + (j - (off + 4))]
        out.append(enc[i] ^ prev)
    return bytes(out)


def plan(tier, seed):
    q = tier == "quick"
    shards = [{"kind": "mix", "n": 110 if q else 4000, "budget_s": 50 if q else 2400, "timeout_s": 300 if q else 5400} for _ in range(15)]
    shards.append({"kind": "allkeys256", "budget_s": 50 if q else 2400, "timeout_s": 300 if q else 5400})
    shards[0]["dominant"] = 12 if q else 300
    shards[1]["priority"] = 24 if q else 600
    shards[2]["history"] = 6 if q else 150
    return shards


def run_shard(shard, ctx):
    rng = ctx.rng
    if shard["kind"] == "allkeys256":
        # every key value at least once: raw layout, caller-supplied key
        for key in range(256):
            if ctx.out_of_time():
                break
            cfg = mkcfg(rng)
            raw = P.filler(rng, rng.randrange(0, 64) + (1100 if key == 0xFF else 0)) + P.rx1(cfg.ljust(4096, b"\0"), key) + P.filler(rng, rng.randrange(0, 64))
            mode = key % 3
            case = {"payload": raw, "keys": [bytes([key])] if mode == 0 else None, "allk": mode != 0, "bs": None, "views": [("raw", raw)],
                    "hows": ["bytes"], "meta": {"layout": "raw", "decoys": 1 if mode == 2 else 0, "near_boundary": True, "place": "key-sweep", "fill": "random"}}
            check_case(case, ctx)
        return
    if shard.get("dominant", 0):
        # (first thing in a fresh process) the same two-candidate payload analysed with all keys before and after another
        # payload in which one of its keys is the most frequent byte: the answer for a payload does not depend on what was
        # analysed before it
        from dissect.cobaltstrike import beacon

        ctx.mon("history.independent")
        for _ in range(3):
            y = rng.choice([x for x in range(1, 120) if x not in (0x69, 0x2E)])
            x = rng.choice([v for v in range(y + 1, 255) if v not in (0x69, 0x2E)])
            short = lambda k, port: P.rx1(tlv.short(1, 0) + tlv.short(2, port) + tlv.S(26, 3, bytes(rng.randrange(0x41, 0x5B) for _ in range(30))), k)  # noqa: E731
            two = b"AB" * 9 + short(x, 1111) + b"CD" * 11 + short(y, 2222) + b"EF" * 5
            other = b"GH" * 7 + P.rx1((tlv.short(1, 8) + tlv.short(2, 3333)).ljust(4096, b"\0"), x) + b"IJ" * 3
            seen = []
            try:
                for pl in (two, other, two, two):
                    c = beacon.BeaconConfig.from_bytes(pl, all_xor_keys=True)
                    seen.append((c.xorkey, c.port))
            except Exception as e:  # noqa: BLE001
                ctx.violation("history.independent", f"all-keys analyses in a row: {type(e).__name__}: {e}", {"op": "allkeys-history", "x": x, "y": y})
                break
            if seen[0] != seen[2] or seen[0] != seen[3] or seen[1] != (bytes([x]), 3333):
                ctx.violation("history.independent", f"the same payload (blocks under keys {y:#x} and {x:#x}) analysed with all keys gives {seen[0]} at first and "
                              f"{seen[2]} after a payload dominated by key {x:#x} was analysed", {"op": "allkeys-history", "x": x, "y": y})
                break
            ctx.ok(fp=("allkeys-history", x, y), nontrivial=True, case={"op": "allkeys-history", "x": x, "y": y}, classes=("history:allkeys-order",))
    for _ in range(shard.get("dominant", 0)):
        if ctx.out_of_time():
            break
        check_case(gen_dominant(rng), ctx)
    for _ in range(shard.get("history", 0)):
        if ctx.out_of_time():
            break
        check_case(gen_history(rng), ctx)
    for _ in range(shard.get("priority", 0)):
        if ctx.out_of_time():
            break
        check_case(gen_priority(rng), ctx)
    for _ in range(shard["n"]):
        if ctx.out_of_time():
            break
        check_case(gen_case(rng, shard["tier"]), ctx)


LEVEL_TEXT = (
    "Exploration against a naive model: layered payloads (settings -> padded block -> XOR key -> filler/PE section -> "
    "XorEncoder) with boundary-biased offsets, decoy blocks and every key value are extracted by the real from_bytes/"
    "from_file/from_path under read-buffer sizes 1..8193; the returned block, settings, key and xorencoded flag must equal "
    "the first block found by bytes.find in (view, key-priority, file) order, and ValueError must be raised exactly when "
    "the model finds none."
)
LEVEL_NOTE = "Held on the payloads explored; trusted base: bytes.find model, the reference PE/XorEncoder builders."
TECHNIQUE = "reference-model runtime monitor (naive search model on the same bytes) with buffer-size injection via io proxy; icontract post-condition on XorEncodedFile.read"
