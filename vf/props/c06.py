"""C06 - beacon metadata survives RSA transport; session keys derive from it.

Monitors: own struct layout of the metadata header + textbook RSA (pow) with own PKCS#1 v1.5 padding, in
both directions; exception-type monitor on undecryptable / malformed blobs; SHA-256 split oracle."""

from __future__ import annotations

import hashlib
import random

from vf import core
from vf.ref import crypto as R

ID = "C06"
LEVEL = "exploration"
RULE = (
    "round-trip cases are (key, field values, info): every integer field drawn from {0,1,max-1,max,random} at its full "
    "width, info lengths 0..limit (limit = modulus bytes - 11 - 59) each several times and one/two past the limit, four "
    "committed RSA keys (2x1024, 2x2048). Negative cases are blobs: random of modulus length, ciphertext for another key, "
    "wrong lengths, all-00/all-ff, and valid PKCS#1 encryptions of empty/short plaintexts, wrong magic, right magic with "
    "a short or inconsistent body. Key-derivation cases are 16-byte seeds. Non-trivial: all (each exercises the RSA path "
    "or the hash split). Distinct = distinct argument tuple."
)
ASSUMPTIONS = [
    "pycryptodome's RSA primitive is trusted only as far as it agrees with pow(m, e, n) from the reference",
    "a decryptable blob whose size field is smaller than the bytes present is not judged (the surplus is ignored)",
]
REQUIRED_MONITORS = ["lib.encrypt->ref.decrypt", "ref.encrypt->lib.decrypt", "overlimit", "negative.blob", "derive", "derive.session"]

KEYS = ["rsa1024_a", "rsa1024_b", "rsa2048_a", "rsa2048_b"]
_keys = {}


def key(name):
    if name not in _keys:
        _keys[name] = R.load_key(name)
    return _keys[name]


def make_metadata(c_c2, fields, info):
    m = c_c2.BeaconMetadata()
    for k, v in fields.items():
        if k != "size":
            setattr(m, k, v)
    m.size = fields.get("size", 0)
    m.info = info
    return m


def fields_of(m):
    return {k: (bytes(getattr(m, k)) if k == "aes_rand" else int(getattr(m, k))) for k in R.META_FIELDS}


def check_case(case, ctx):
    from dissect.cobaltstrike import c2, c_c2

    op = case["op"]
    if op == "roundtrip":
        k = key(case["key"])
        fields, info = case["fields"], case["info"]
        limit = k.size_in_bytes() - 11 - R.META_HDR
        # library encrypts, reference decrypts
        m = make_metadata(c_c2, fields, info)
        try:
            blob = c2.encrypt_metadata(m, k.publickey())
            over = False
        except ValueError:
            over = True
        except Exception as e:  # noqa: BLE001
            ctx.violation("encrypt.exception", f"{type(e).__name__}: {e}", case)
            return
        if len(info) > limit:
            ctx.mon("overlimit")
            if not over:
                ctx.violation("overlimit", f"info of {len(info)} bytes (limit {limit}) was encrypted without ValueError", case)
                return
            ctx.ok(fp=("over", case["key"], len(info)), case=case, classes=("overlimit",))
            return
        if over:
            ctx.violation("lib.encrypt->ref.decrypt", f"ValueError for info of {len(info)} bytes which fits (limit {limit})", case)
            return
        ctx.mon("lib.encrypt->ref.decrypt")
        raw = R.rsa_decrypt_pkcs1(k.n, k.d, blob)
        if raw is None:
            ctx.violation("lib.encrypt->ref.decrypt", "reference PKCS#1 v1.5 decryption rejects the library's ciphertext", case)
            return
        want = dict(fields)
        want["size"] = R.META_HDR + len(info) - 8
        got_f, got_info = R.meta_unpack(raw)
        if got_f != want or got_info != info or len(raw) != R.META_HDR + len(info):
            ctx.violation("lib.encrypt->ref.decrypt", f"metadata on the wire {core.short(got_f)} info={core.short(got_info)} != sent {core.short(want)}", case)
            return
        # and the library decrypts its own blob
        try:
            m2 = c2.decrypt_metadata(blob, k)
        except Exception as e:  # noqa: BLE001
            ctx.violation("lib.roundtrip", f"decrypt_metadata(encrypt_metadata(m)) raised {type(e).__name__}: {e}", case)
            return
        if fields_of(m2) != want or bytes(m2.info) != info:
            ctx.violation("lib.roundtrip", f"round trip changed the metadata: {core.short(fields_of(m2))}", case)
            return
        # history: the blob that has just been decrypted with its key, presented with every other key, is still refused
        ctx.mon("negative.blob")
        for other in KEYS:
            if other == case["key"]:
                continue
            try:
                m3 = c2.decrypt_metadata(blob, key(other))
            except ValueError:
                continue
            except Exception as e:  # noqa: BLE001
                ctx.violation("negative.blob", f"blob of key {case['key']} under key {other} (after a successful decryption with its own key): {type(e).__name__}: {e} instead of ValueError", case)
                return
            ctx.violation("negative.blob", f"blob of key {case['key']} accepted under key {other} after it had been decrypted with its own key: {core.short(fields_of(m3))}", case)
            return
        # reference encrypts, library decrypts
        ctx.mon("ref.encrypt->lib.decrypt")
        rng = random.Random(case["seed"])
        blob2 = R.rsa_encrypt_pkcs1(rng, k.n, k.e, R.meta_pack(fields, info))
        try:
            m3 = c2.decrypt_metadata(blob2, k)
        except Exception as e:  # noqa: BLE001
            ctx.violation("ref.encrypt->lib.decrypt", f"{type(e).__name__}: {e}", case)
            return
        if fields_of(m3) != want or bytes(m3.info) != info:
            ctx.violation("ref.encrypt->lib.decrypt", f"decoded {core.short(fields_of(m3))} info={core.short(bytes(m3.info))} != {core.short(want)}", case)
            return
        # keys from metadata
        ak, hk = hashlib.sha256(fields["aes_rand"]).digest()[:16], hashlib.sha256(fields["aes_rand"]).digest()[16:]
        bk = c2.BeaconKeys.from_beacon_metadata(m3)
        if (bk.aes_key, bk.hmac_key, bk.iv) != (ak, hk, b"abcdefghijklmnop"):
            ctx.violation("derive", "BeaconKeys.from_beacon_metadata differs from SHA-256 halves / default IV", case)
            return
        ctx.ok(fp=(case["key"], repr(sorted(fields.items())), info), case=case,
               classes=(f"key:{case['key'][:7]}", f"info:{'0' if not info else 'max' if len(info) == limit else 'mid'}"))
    elif op == "negative":
        k = key(case["key"])
        ctx.mon("negative.blob")
        try:
            m = c2.decrypt_metadata(case["blob"], k)
        except ValueError:
            ctx.ok(fp=(case["key"], case["blob"]), case=case, classes=(f"neg:{case['what']}",))
            return
        except Exception as e:  # noqa: BLE001
            ctx.violation("negative.blob", f"{case['what']}: {type(e).__name__}: {e} instead of ValueError", case)
            return
        ctx.violation("negative.blob", f"{case['what']}: accepted as {core.short(fields_of(m))}", case)
    elif op == "session":
        # the traffic decoder's own derivation path: after the first check-in the session keys must be the SHA-256 halves
        # of the metadata's random bytes, whatever partial key material the decoder was constructed with
        from dissect.cobaltstrike import beacon
        from vf.ref import config as C
        from vf.ref import tlv

        ctx.mon("derive.session")
        k = key(case["key"])
        rng = random.Random(case["seed"])
        settings, model = C.build_http_config(rng, keyname=case["key"], extras=False, allow_uri=False)
        cfg = beacon.BeaconConfig(tlv.encode(settings) + b"\0\0")
        fields = gen_fields(rng)
        d = hashlib.sha256(fields["aes_rand"]).digest()
        blob = R.rsa_encrypt_pkcs1(rng, k.n, k.e, R.meta_pack(fields, b"HOST\tuser\tp.exe"))
        variant = case["variant"]
        kw = {"rsa_private_key": k}
        if variant == "aes_rand+hmac":
            # the random bytes of the metadata given directly, together with an HMAC key argument: the session keys are the
            # halves of SHA-256 over the random bytes all the same
            kw = {"aes_rand": fields["aes_rand"], "hmac_key": bytes(16) if case["seed"] % 2 else b"H" * 16}
        elif variant == "rsa+aes":
            kw["aes_key"] = d[:16]
        elif variant == "rsa+aes+hmac":
            kw.update(aes_key=d[:16], hmac_key=d[16:])
        try:
            dec = c2.C2Http(cfg, **kw)
            req = dec.transform_get.transform(c2.C2Data(metadata=blob), c2.HttpRequest(method=dec.get_verb, uri=dec.get_uris[0], params={}, headers={}, body=b""))
            if "rsa_private_key" not in kw:
                pk = [None]
            elif case["seed"] % 3 == 0:
                # a caller that only takes the check-in itself and leaves the iterator unfinished
                it = dec.iter_recover_http(req)
                pk = [next(it)]
                del it
                variant += ",first-packet-only"
            else:
                pk = list(dec.iter_recover_http(req))
        except Exception as e:  # noqa: BLE001
            ctx.violation("derive.session", f"[{variant}] {type(e).__name__}: {e}", case)
            return
        if "rsa_private_key" in kw and case["seed"] % 4 == 1:
            # the same decoder is then shown an undecryptable metadata blob several times: refused every time
            bad = bytes([blob[0] ^ 0x55]) + blob[1:-1] + bytes([blob[-1] ^ 1])
            breq = dec.transform_get.transform(c2.C2Data(metadata=bad), c2.HttpRequest(method=dec.get_verb, uri=dec.get_uris[0], params={}, headers={}, body=b""))
            for attempt in range(3):
                try:
                    out = list(dec.iter_recover_http(breq))
                except ValueError:
                    continue
                except Exception as e:  # noqa: BLE001
                    ctx.violation("negative.blob", f"[{variant}] undecryptable check-in, sighting #{attempt + 1}: {type(e).__name__}: {e}", case)
                    return
                ctx.violation("negative.blob", f"[{variant}] undecryptable check-in accepted at sighting #{attempt + 1} (yielded {len(out)} packets, no error)", case)
                return
        got = (dec.beacon_keys.aes_key, dec.beacon_keys.hmac_key)
        if len(pk) != 1 or (pk[0] is not None and bytes(pk[0].aes_rand) != fields["aes_rand"]) or got != (d[:16], d[16:]):
            ctx.violation("derive.session", f"[{variant}] after the check-in the decoder's session keys are {core.short(got)}; SHA-256 halves of the metadata's random bytes are {core.short((d[:16], d[16:]))}", case)
            return
        ctx.ok(fp=("session", case["key"], case["seed"], variant), case=case, classes=(f"session:{variant}",))
    elif op == "derive":
        seed = case["rand"]
        ctx.mon("derive")
        d = hashlib.sha256(seed).digest()
        try:
            a = c2.derive_aes_hmac_keys(seed)
            b = c2.BeaconKeys.from_aes_rand(seed)
            iv = case.get("iv")
            c = c2.BeaconKeys.from_aes_rand(seed, iv=iv) if iv else None
        except Exception as e:  # noqa: BLE001
            ctx.violation("derive", f"{type(e).__name__}: {e}", case)
            return
        if tuple(a) != (d[:16], d[16:]) or (b.aes_key, b.hmac_key, b.iv) != (d[:16], d[16:], b"abcdefghijklmnop"):
            ctx.violation("derive", f"keys for seed {seed.hex()} are not the halves of SHA-256(seed)", case)
            return
        if c is not None and (c.aes_key, c.hmac_key, c.iv) != (d[:16], d[16:], iv):
            ctx.violation("derive", "explicit IV not carried", case)
            return
        ctx.ok(fp=("derive", seed), case=case, classes=("derive",))
    else:
        raise ValueError(op)


def gen_fields(rng):
    f = {"aes_rand": rng.randbytes(16)}
    for name, bits in R.META_WIDTH.items():
        mx = (1 << bits) - 1
        f[name] = rng.choice([0, 1, mx - 1, mx, rng.randrange(0, mx + 1), rng.randrange(0, mx + 1)])
    f["magic"] = 0xBEEF
    f["size"] = rng.choice([0, 1, 0xFFFFFFFF, 51])  # whatever the caller left there; must be made consistent
    return f


def plan(tier, seed):
    q = tier == "quick"
    shards = []
    for kname in KEYS:
        per = 3 if "1024" in kname else 4
        for i in range(per):
            shards.append({"kind": "roundtrip", "key": kname, "n": (110 if "1024" in kname else 45) if q else (5000 if "1024" in kname else 1500), "part": i, "parts": per})
    shards.append({"kind": "negative", "n": 250 if q else 8000})
    shards.append({"kind": "negative", "n": 250 if q else 8000})
    shards.append({"kind": "derive", "n": 3000 if q else 200000})
    shards.append({"kind": "session", "n": 150 if q else 6000})
    for s in shards:
        s["budget_s"] = 50 if q else 1500
        s["timeout_s"] = 300 if q else 3600
    return shards


def run_shard(shard, ctx):
    from dissect.cobaltstrike import c2, c_c2

    rng = ctx.rng
    kind = shard["kind"]
    if kind == "roundtrip":
        k = key(shard["key"])
        limit = k.size_in_bytes() - 11 - R.META_HDR
        lens = list(range(0, limit + 3))
        mine = lens[shard["part"] :: shard["parts"]]
        i = 0
        while i < shard["n"] and not ctx.out_of_time():
            ln = mine[i % len(mine)] if i < 2 * len(mine) else rng.choice([0, limit, limit + 1, rng.randrange(0, limit + 1)])
            info = rng.choice([rng.randbytes(ln), bytes(rng.randrange(32, 127) for _ in range(ln))])
            check_case({"op": "roundtrip", "key": shard["key"], "fields": gen_fields(rng), "info": info, "seed": rng.getrandbits(32)}, ctx)
            i += 1
    elif kind == "negative":
        for i in range(shard["n"]):
            if ctx.out_of_time():
                break
            kname = rng.choice(KEYS)
            k = key(kname)
            kb = k.size_in_bytes()
            what = rng.choice(["random", "otherkey", "wronglen", "zeros", "ones", "empty-pt", "short-pt", "wrong-magic",
                               "magic-short", "size-too-big", "valid-wrong-length"])
            f = gen_fields(rng)
            info = rng.randbytes(rng.randrange(0, 20))
            if what == "random":
                blob = (rng.randrange(0, k.n)).to_bytes(kb, "big")
            elif what == "otherkey":
                other = key(rng.choice([x for x in KEYS if x != kname and x[:7] == kname[:7]]))
                blob = R.rsa_encrypt_pkcs1(rng, other.n, other.e, R.meta_pack(f, info))
                if int.from_bytes(blob, "big") >= k.n:
                    continue
            elif what == "wronglen":
                blob = rng.randbytes(rng.choice([0, 1, 16, kb - 1, kb + 1, 2 * kb]))
            elif what == "valid-wrong-length":
                # a genuine ciphertext that is not exactly as long as the modulus: zero bytes in front of it, or its own leading
                # zero byte dropped - the blob in the cookie is the modulus-sized string, anything else is not a metadata blob
                blob = R.rsa_encrypt_pkcs1(rng, k.n, k.e, R.meta_pack(f, info))
                blob = blob[1:] if blob[0] == 0 else bytes(rng.choice([1, 2, 16, kb])) + blob
            elif what == "zeros":
                blob = bytes(kb)
            elif what == "ones":
                blob = b"\xff" * kb
            elif what == "empty-pt":
                blob = R.rsa_encrypt_pkcs1(rng, k.n, k.e, b"")
            elif what == "short-pt":
                blob = R.rsa_encrypt_pkcs1(rng, k.n, k.e, rng.randbytes(rng.randrange(1, 59)))
            elif what == "wrong-magic":
                # wrong in the low half, wrong in the high half only (0xNNNNBEEF), byte-swapped, shifted
                f["magic"] = rng.choice([0, 0xBEEE, 0xBEF0, 0xEFBE0000, 0xBEEF0000, rng.getrandbits(32) & ~0xBEEF | 1 << 20,
                                         0xDEADBEEF, 0x0001BEEF, 0xBEEFBEEF, 0xFFFFBEEF, (rng.randrange(1, 0x10000) << 16) | 0xBEEF])
                if f["magic"] == 0xBEEF:
                    continue
                blob = R.rsa_encrypt_pkcs1(rng, k.n, k.e, R.meta_pack(f, info))
            elif what == "magic-short":
                full = R.meta_pack(f, info)
                blob = R.rsa_encrypt_pkcs1(rng, k.n, k.e, full[: rng.randrange(4, R.META_HDR)])
            else:
                blob = R.rsa_encrypt_pkcs1(rng, k.n, k.e, R.meta_pack(f, info, size=R.META_HDR - 8 + len(info) + rng.choice([1, 2, 100, 0x7FFFFFFF])))
            check_case({"op": "negative", "key": kname, "blob": blob, "what": what}, ctx)
    elif kind == "session":
        for i in range(shard["n"]):
            if ctx.out_of_time():
                break
            check_case({"op": "session", "key": rng.choice(KEYS), "seed": rng.getrandbits(32), "variant": ["rsa", "rsa+aes", "rsa+aes+hmac", "aes_rand+hmac"][i % 4]}, ctx)
    elif kind == "derive":
        for i in range(shard["n"]):
            if ctx.out_of_time():
                break
            seed = rng.choice([rng.randbytes(16), rng.randbytes(16), bytes(16), b"\xff" * 16, bytes([i % 256]) * 16])
            check_case({"op": "derive", "rand": seed, "iv": rng.randbytes(16) if rng.random() < 0.3 else None}, ctx)
    else:
        raise ValueError(kind)


LEVEL_TEXT = (
    "Exploration in both directions against an independent implementation: library-encrypted metadata is decrypted with "
    "textbook RSA (pow) + own PKCS#1 v1.5 unpadding and parsed with an own struct layout; reference-encrypted metadata is "
    "decrypted by the library; every info length 0..limit for 1024- and 2048-bit keys and limit+1/+2, boundary values of "
    "every integer field; an exception-type monitor over eleven classes of undecryptable or malformed blobs; SHA-256 "
    "split oracle for key derivation."
)
LEVEL_NOTE = "Held on the cases explored with four fixed RSA keys; trusted base: Python pow(), struct, hashlib."
TECHNIQUE = "reference-model runtime monitor in both directions (own PKCS#1/RSA/struct codec) + exception-type monitor on fault blobs"
