"""C02 - settings are decoded exactly and all views agree.

Monitor: reference TLV parser (vf/ref/tlv.py) beside BeaconConfig(block); cross-view agreement checks; the
bounded-progress monitor watches the User-Agent continuation loop."""

from __future__ import annotations

import io
import struct

from vf import core, steps
from vf.ref import tables, tlv

ID = "C02"
LEVEL = "exploration"
RULE = (
    "a case is one configuration block: a random sequence of TLV records (index from known / aliased 16,17,36,48 / "
    "unknown 79..65535; type 0..3; length from {0,1,2,3,4,5,127,128,129,255,256,4090,random}; random value bytes; "
    "duplicates) followed by one of the terminator variants (00 00 + padding, end of data after a record, end of data "
    "inside a header, inside a value, one odd trailing byte, garbage after the terminator) and the 128-byte User-Agent "
    "variants (continuation to a later NUL, at once, never). Non-trivial: at least two records, or a User-Agent "
    "continuation, or a truncated last record. Distinct = distinct block bytes."
)
ASSUMPTIONS = [
    "a 128-byte User-Agent that contains a NUL but does not end in one is not generated (whose NUL is 'its NUL' is unspecified)",
    "one block never carries index 36 both as SHORT and as non-SHORT (two names for one constant)",
    "SHORT/INT values whose length is not 2/4 are only required to be ints that agree across views",
    "pretty views are not judged for a block in which a pretty-printer rejects a generated out-of-domain value",
    "setting types above 3 are outside the quantifier",
]
REQUIRED_MONITORS = ["tuple.model", "views.agree", "values.exact", "pretty.vs.raw", "useragent.continuation", "fileobject.position", "views.options"]

KNOWN = sorted(tables.SETTING_NAMES)
LENGTHS = [0, 1, 2, 3, 4, 5, 2, 4, 16, 127, 128, 129, 255, 256, 4090]


def gen_block(rng):
    """-> (block, meta)"""
    nset = rng.choice([0, 1, 1, 2, 3, 5, 8, 13, 30, 60])
    recs = []
    uses36 = None
    meta = {"ua": None, "term": None}
    budget = 70000
    for _ in range(nset):
        r = rng.random()
        if r < 0.55:
            idx = rng.choice(KNOWN)
        elif r < 0.7:
            idx = rng.choice([16, 17, 36, 48, 9, 9])
        elif r < 0.9:
            idx = rng.randrange(79, 65536)
        else:
            idx = rng.choice([75, 79, 255, 256, 0x100, 0xFFFF, 0x0900])
        typ = rng.choice([1, 2, 3, 3, 0]) if rng.random() < 0.9 else rng.randrange(0, 4)
        if idx == 36:
            kind36 = typ == 1
            if uses36 is None:
                uses36 = kind36
            elif uses36 != kind36:
                typ = 1 if uses36 else 3
        r = rng.random()
        if typ == 1 and r < 0.7:
            ln = 2
        elif typ == 2 and r < 0.7:
            ln = 4
        elif r < 0.95:
            ln = rng.choice(LENGTHS)
        else:
            ln = rng.choice([rng.randrange(0, 70), rng.randrange(0, 3000), 65535])
        ln = min(ln, budget)
        budget -= ln
        val = rng.randbytes(ln)
        extra = b""
        if idx == 9 and rng.random() < 0.8:
            # User-Agent variants
            ln = 128
            v = rng.choice(["short", "endnul", "cont", "cont0", "never", "innernul"])
            body = bytes(rng.randrange(1, 256) for _ in range(128))
            if v == "short":
                k = rng.randrange(0, 127)
                val = body[:k] + b"\0" * (128 - k)
            elif v == "endnul":
                val = body[:127] + b"\0"
            elif v == "innernul":
                # the string ends inside the field (not over-long); the rest of the field is not NUL-filled up to its last
                # byte, and whatever follows the field does not start with a NUL either
                k = rng.randrange(0, 127)
                val = body[:k] + b"\0" + body[k + 1 :]
                extra = bytes(rng.randrange(1, 256) for _ in range(rng.choice([0, 0, 1, 5]))) if rng.random() < 0.3 else b""
                meta["next_nonzero"] = True
            elif v == "cont":
                val = body
                # continuation lengths around every plausible chunk size, not just short ones
                extra = bytes(rng.randrange(1, 256) for _ in range(rng.choice([rng.randrange(1, 40), 127, 128, 129, 255, 256, 257, 300, 1000, rng.randrange(40, 1200)])))
            elif v == "cont0":
                val = body  # the very next byte is a NUL
            else:
                val = body
                extra = bytes(rng.randrange(1, 256) for _ in range(rng.choice([rng.randrange(0, 40), 128, 256, 257, 700])))
            meta["ua"] = v
            recs.append((idx, typ, val, extra, v))
            continue
        recs.append((idx, typ, val, b"", None))
    out = bytearray()
    for i, (idx, typ, val, extra, v) in enumerate(recs):
        out += tlv.S(idx, typ, val) + extra
        if v == "innernul" and not extra:
            out += tlv.S(rng.choice([0x4142, 256, 65535, 0x0100 + idx]), rng.choice([1, 3]), rng.randbytes(2))  # next record starts with a non-NUL byte
        if v == "never" and i != len(recs) - 1:
            # 'never' only makes sense as the last record; otherwise the next record header ends it at its first NUL
            pass
    term = rng.choice(["nul-pad", "nul-pad", "eof", "eof-header", "eof-value", "odd-byte", "nul-garbage", "nul-only"])
    if recs and recs[-1][4] == "never":
        term = "eof"
    meta["term"] = term
    if term == "nul-pad":
        out += b"\0" * rng.choice([2, 3, 64, 4096 - (len(out) % 4096) if len(out) < 4096 else 2])
    elif term == "nul-only":
        out += b"\0\0"
    elif term == "eof-header":
        out += tlv.S(rng.choice(KNOWN), 3, b"abcdef")[: rng.randrange(2, 6)]
    elif term == "eof-value":
        full = tlv.S(rng.choice([2, 3, 5, 37, 500]), 3, rng.randbytes(rng.randrange(1, 50)))
        out += full[: rng.randrange(6, len(full))]
    elif term == "odd-byte":
        out += bytes([rng.randrange(1, 256)])
    elif term == "nul-garbage":
        out += b"\0\0" + rng.randbytes(rng.randrange(1, 200))
    return bytes(out), meta


def expected_name(idx, typ):
    if idx == 36:
        return ["SETTING_INJECT_OPTIONS"] if typ == 1 else ["SETTING_WATERMARKHASH"]
    if idx in tables.SETTING_NAMES:
        return tables.SETTING_NAMES[idx]
    return [f"BeaconSetting_{idx}"]


def check_case(case, ctx):
    from dissect.cobaltstrike import beacon

    steps.install()
    block = case["block"]
    ref = tlv.ref_parse(block)
    ctx.mon("tuple.model")
    try:
        with steps.budget(len(block)) as b:
            cfg = beacon.BeaconConfig(block)
    except steps.Overrun as e:
        ctx.violation("bounded.progress", f"unbounded looping while decoding a block: {e}", case)
        return
    except Exception as e:  # noqa: BLE001
        ctx.violation("tuple.exception", f"BeaconConfig(block) raised {type(e).__name__}: {e}", case)
        return
    ctx.maximum("back_edges_per_byte", b.maxact / max(1, len(block)))
    got = [(s.index.value, s.type.value, s.length, s.value) for s in cfg.settings_tuple]
    if got != ref:
        i = next((k for k, (x, y) in enumerate(zip(got, ref)) if x != y), min(len(got), len(ref)))
        ctx.violation(
            "tuple.model",
            f"settings_tuple differs from the serialised records at #{i}: got {core.short(got[i:i+1])} want {core.short(ref[i:i+1])} (lengths {len(got)} vs {len(ref)})",
            case,
        )
        return
    for srec, r in zip(cfg.settings_tuple, ref):
        sname = getattr(srec.index, "name", None) or f"BeaconSetting_{r[0]}"
        if sname not in expected_name(r[0], r[1]):
            ctx.violation("views.names", f"settings_tuple names index {r[0]} type {r[1]} {sname!r}, expected one of {expected_name(r[0], r[1])}", case)
            return
    if any(r[0] == 9 and r[2] == 0x80 and len(r[3]) > 0x80 for r in ref):
        ctx.mon("useragent.continuation")
    if cfg.config_block != block:
        ctx.violation("tuple.model", "config_block is not the input", case)
        return
    if cfg.setting_enums != [r[0] for r in ref] or (ref and cfg.max_setting_enum != max(r[0] for r in ref)):
        ctx.violation("tuple.model", "setting_enums / max_setting_enum disagree with the records", case)
        return

    # ---- expected mapping (dict semantics: first position, last value) -------------------------
    ctx.mon("values.exact")
    exp = {}
    for idx, typ, ln, val in ref:
        # a value shorter than the type's width is still a big-endian unsigned number: the bytes that are there, not shifted
        if typ == 1:
            v = ("int16", int.from_bytes(val, "big")) if ln <= 2 else ("int?", None)
        elif typ == 2:
            v = ("int32", int.from_bytes(val, "big")) if ln <= 4 else ("int?", None)
        else:
            v = ("bytes", val)
        exp[idx] = (v, typ, val)
    try:
        by_name = cfg.raw_settings
        by_const = cfg.raw_settings_by_index
        by_enum = cfg.settings_map("enum")
        unparsed = cfg.settings_map("const", parse=False)
    except Exception as e:  # noqa: BLE001
        ctx.violation("views.exception", f"raw view raised {type(e).__name__}: {e}", case)
        return
    ctx.mon("views.agree")
    if list(by_const.keys()) != list(exp.keys()):
        ctx.violation("views.order", f"constant-indexed view keys {list(by_const.keys())[:12]} != on-disk order {list(exp.keys())[:12]}", case)
        return
    if [k.value for k in by_enum.keys()] != list(exp.keys()) or len(by_name) != len(exp):
        ctx.violation("views.order", "enum/name-indexed views do not list the same settings in the same order", case)
        return
    for (idx, ((kind, want), typ, rawval)), name, ekey, nv, cv, ev, uv in zip(
        exp.items(), by_name.keys(), by_enum.keys(), by_name.values(), by_const.values(), by_enum.values(), unparsed.values()
    ):
        if name not in expected_name(idx, typ):
            ctx.violation("views.names", f"index {idx} type {typ} is named {name!r}, expected one of {expected_name(idx, typ)}", case)
            return
        # the enum-indexed view must name the setting the same way (unknown indices have no member name)
        ename = getattr(ekey, "name", None)
        if (ename or f"BeaconSetting_{idx}") not in expected_name(idx, typ):
            ctx.violation("views.names", f"index {idx} type {typ}: enum-indexed view names it {ename!r}, name-indexed view {name!r}", case)
            return
        if not (isinstance(nv, (bytes, int)) and isinstance(nv, bytes) == isinstance(cv, bytes) == isinstance(ev, bytes) and nv == cv == ev):
            ctx.violation("views.agree", f"index {idx}: name/const/enum views give {nv!r} / {cv!r} / {ev!r}", case)
            return
        if uv != rawval:
            ctx.violation("values.exact", f"index {idx}: unparsed view {uv!r} != serialised value", case)
            return
        if kind in ("int16", "int32", "bytes"):
            if not isinstance(cv, type(want)) or isinstance(cv, bool) or cv != want:
                ctx.violation("values.exact", f"index {idx} type {typ}: value {cv!r}, serialised {rawval.hex()} means {want!r}", case)
                return
        else:
            if not isinstance(cv, int) or isinstance(cv, bool) or not (0 <= cv < 2 ** (16 if typ == 1 else 32)):
                ctx.violation("values.exact", f"index {idx} type {typ} odd length: value {cv!r} is not an unsigned int of the type's width", case)
                return
    # second access returns the same cached view
    if cfg.raw_settings is not by_name or dict(cfg.settings_map("name")) != dict(by_name):
        ctx.violation("views.agree", "repeated access gives a different raw view", case)
        return

    # ---- the same block read from a caller-opened file object that is positioned at the block, not at offset 0 --------
    ctx.mon("fileobject.position")
    kinds = [("bytesio", b""), ("bytesio", tlv.ptr(7, b"AAAA") * (1 + len(block) % 3))]
    if block:
        kinds.append(("mmap", tlv.ptr(7, b"AAAA") * (len(block) % 2)))
    bufsize = 64
    if len(block) % 4 == 0:
        # a real file behind a small BufferedReader; where the block has a terminator the buffer is sized so that the
        # terminator's first byte is the last byte of the first buffer fill
        off_term = sum(6 + len(r[3]) for r in ref)
        if block[off_term : off_term + 2] == b"\0\0" and off_term + 1 >= 16:
            bufsize = off_term + 1
        kinds.append(("buffered64", tlv.ptr(7, b"AAAA")))
    for fkind, prefix in kinds:
        tmp = None
        if fkind == "mmap":
            import mmap

            fobj = mmap.mmap(-1, len(prefix + block))
            fobj.write(prefix + block)
        elif fkind == "buffered64":
            import os
            import tempfile

            fd, tmp = tempfile.mkstemp(prefix="vf_c02_")
            os.write(fd, prefix + block)
            os.close(fd)
            fobj = open(tmp, "rb", buffering=bufsize)
        else:
            fobj = io.BytesIO(prefix + block)
        fobj.seek(len(prefix))
        try:
            from_file = [(x.index.value, x.type.value, x.length, x.value) for x in beacon.iter_settings(fobj)]
        except Exception as e:  # noqa: BLE001
            ctx.violation("fileobject.position", f"iter_settings({fkind} file object at {len(prefix)}) raised {type(e).__name__}: {e}", case)
            return
        finally:
            fobj.close()
            if tmp:
                os.unlink(tmp)
        if from_file != ref:
            ctx.violation("fileobject.position", f"iter_settings({fkind} file object positioned at {len(prefix)}) decodes {core.short(from_file[:3])}, "
                          f"the same bytes as a byte string {core.short(ref[:3])}", case)
            return

    # ---- every option combination of settings_map ------------------------------------------------------
    ctx.mon("views.options")
    for it, base in (("name", by_name), ("const", by_const), ("enum", by_enum)):
        for pretty in (False, True):
            for parse in (False, True):
                try:
                    m = cfg.settings_map(it, pretty=pretty, parse=parse)
                except Exception:  # noqa: BLE001  out-of-domain value for a pretty-printer: not judged
                    if pretty:
                        continue
                    ctx.violation("views.exception", f"settings_map({it!r}, pretty={pretty}, parse={parse}) raised", case)
                    return
                if list(m.keys()) != list(base.keys()):
                    ctx.violation("views.options", f"settings_map({it!r}, pretty={pretty}, parse={parse}) lists other settings / order", case)
                    return
                for (idx, (_, typ, rawval)), mv, bv in zip(exp.items(), m.values(), base.values()):
                    if pretty and idx in {k.value for k in beacon.SETTING_TO_PRETTYFUNC}:
                        continue
                    want = bv if (parse or pretty) else rawval
                    if isinstance(mv, bytes) != isinstance(want, bytes) or mv != want:
                        ctx.violation("views.options", f"settings_map({it!r}, pretty={pretty}, parse={parse}) index {idx}: {mv!r}, the raw view has {want!r}", case)
                        return

    # ---- pretty views ------------------------------------------------------------------------------
    pretty_idx = {k.value for k in beacon.SETTING_TO_PRETTYFUNC}
    try:
        p_name = cfg.settings
        p_const = cfg.settings_by_index
        judged = True
    except Exception:  # noqa: BLE001  out-of-domain value for a pretty-printer: not judged
        judged = False
    if judged:
        ctx.mon("pretty.vs.raw")
        if list(p_const.keys()) != list(by_const.keys()) or list(p_name.keys()) != list(by_name.keys()):
            ctx.violation("pretty.vs.raw", "pretty views list different settings / order than the raw views", case)
            return
        for idx, pv, pn in zip(p_const.keys(), p_const.values(), p_name.values()):
            if idx not in pretty_idx:
                if isinstance(pv, bytes) != isinstance(by_const[idx], bytes) or pv != by_const[idx] or pn != pv:
                    ctx.violation("pretty.vs.raw", f"index {idx} has no pretty-printer but pretty {pv!r} != raw {by_const[idx]!r}", case)
                    return
            elif repr(pv) != repr(pn):
                ctx.violation("pretty.vs.raw", f"index {idx}: pretty name/const views differ", case)
                return
    else:
        ctx.mon("pretty.not_judged")
    ua_cont = any(r[0] == 9 and r[2] == 0x80 and len(r[3]) > 0x80 for r in ref)
    nt = len(ref) >= 2 or ua_cont or case.get("term") in ("eof-header", "eof-value", "odd-byte")
    ctx.ok(fp=block, nontrivial=nt, case=case, classes=(
        f"term:{case.get('term')}", f"ua:{case.get('ua')}", f"n:{min(len(ref), 10) if len(ref) < 10 else '10+'}",
        "dups" if len(exp) < len(ref) else "nodups", "pretty:judged" if judged else "pretty:unjudged"))


def plan(tier, seed):
    q = tier == "quick"
    shards = [{"kind": "blocks", "n": 1500 if q else 60000, "budget_s": 50 if q else 1500, "timeout_s": 300 if q else 3600} for _ in range(16)]
    shards.append({"kind": "fixed", "budget_s": 50, "timeout_s": 300})
    return shards


def run_shard(shard, ctx):
    rng = ctx.rng
    if shard["kind"] == "fixed":
        body = bytes(range(1, 129))
        blocks = [
            b"", b"\0", b"\0\0", b"\x01", tlv.short(1, 8), tlv.short(1, 8) + b"\x07",
            tlv.short(1, 8) + tlv.ptr(9, body),  # UA never terminated (known livelock D1)
            tlv.short(1, 8) + tlv.ptr(9, body) + b"more" + b"\0\0\0",
            tlv.short(1, 8) + tlv.ptr(9, body) + b"\0" + tlv.short(2, 443) + b"\0\0",
            tlv.S(36, 1, b"\x00\x05") + tlv.S(36, 1, b"\x00\x06"), tlv.S(36, 3, b"abc\0") + tlv.S(36, 2, b"\0\0\0\1"),
            tlv.S(16, 1, b"\x00\x01") + tlv.S(17, 1, b"\0\2") + tlv.S(48, 1, b"\0\1") + tlv.S(65535, 3, b"x"),
        ]
        for blk in blocks:
            check_case({"block": blk, "term": "fixed", "ua": None}, ctx)
        return
    for _ in range(shard["n"]):
        if ctx.out_of_time():
            break
        block, meta = gen_block(rng)
        check_case({"block": block, **meta}, ctx)


LEVEL_TEXT = (
    "Exploration against a reference TLV parser written from the statement: tens of thousands (thorough: ~10^6) of "
    "generated blocks covering known/aliased/unknown indices, all four types, boundary lengths, duplicates, every "
    "terminator variant and the 128-byte User-Agent variants; settings_tuple, the three index views, raw/parsed/"
    "pretty views (all twelve option combinations of settings_map), names and integer decoding are compared record by "
    "record, every block is also decoded through a caller-opened file object positioned at the block, with the "
    "bounded-progress monitor armed on the decoding loops."
)
LEVEL_NOTE = "Held on the generated blocks; the frozen numbering table (vf/ref/tables.py) is the trusted statement of setting names."
TECHNIQUE = "reference-model runtime monitor (independent TLV parser) + cross-view agreement assertions + sys.monitoring loop budget"
