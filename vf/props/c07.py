"""C07 - end-to-end: traffic produced by the beacon client is decoded to the packets sent.

The real HttpBeaconClient talks to a reference team-server peer through a recorder that replaces
httpx.request: each request is built exactly as httpx would build it, serialised to wire bytes and logged;
the peer (own HTTP parse, reference Malleable codec, own RSA/AES/HMAC) answers with scripted tasks.
Offline checker: the whole wire trace is fed, in order, to one C2Http per key-material variant and the
packets it yields must equal the packets that were sent; unrelated requests must raise ValueError."""

from __future__ import annotations

import hashlib
import random
import struct

from vf import contracts, core
from vf.ref import codec
from vf.ref import config as C
from vf.ref import crypto as R
from vf.ref import tlv

ID = "C07"
LEVEL = "exploration"
RULE = (
    "a case is (configuration, key material, history). Configurations come from the reference builder: random http-get/"
    "http-post/server-output programs with printable placements (a text encoder after any mask before header/parameter/"
    "URI sinks), 1-3 domain/URI pairs, either verb, static headers/parameters, 1024/2048-bit server keys. Histories are "
    "sequences of up to 12 events: check-in answered with nothing / an empty transformed body / NOOP / a task with 0..4 KB "
    "of data; callback POSTs with one packet (real client) or 2..4 packets in one POST; unrelated requests (other verb, other "
    "URI, near-miss prefixes). The trace is decoded with three key variants (RSA private key only, AES random bytes, AES+"
    "HMAC keys). Non-trivial: history with at least one task or callback. Distinct = distinct (configuration, history)."
)
ASSUMPTIONS = [
    "requests are serialised from the httpx.Request object that httpx itself builds (method, raw_path, raw headers, content); TLS and chunking are below the statement's level",
    "submit URI and get URIs are not prefixes of one another (otherwise routing by prefix is ambiguous by construction)",
    "known finding uri-append-base-uri (see C04) is attributed when stripping the base URI before decoding makes the message decode",
]
REQUIRED_MONITORS = ["trace.rsa_only", "trace.aes_rand", "trace.aes_hmac", "trace.rsa_plus_aes", "client.get_task", "peer.saw", "unrelated.rejected", "routing"]

KF_URI = "uri-append-base-uri"


# ---- own HTTP helpers (wire level) -------------------------------------------------------------------------------
def pct_decode(b):
    out = bytearray()
    i = 0
    while i < len(b):
        c = b[i]
        if c == 0x25 and i + 2 < len(b) + 0 and i + 2 <= len(b) - 1 + 0:
            try:
                out.append(int(b[i + 1 : i + 3], 16))
                i += 3
                continue
            except ValueError:
                pass
        out.append(0x20 if c == 0x2B else c)
        i += 1
    return bytes(out)


def parse_request_wire(wire):
    head, _, body = wire.partition(b"\r\n\r\n")
    lines = head.split(b"\r\n")
    method, target, _ver = lines[0].split(b" ")
    path, _, query = target.partition(b"?")
    params = {}
    if query:
        for kv in query.split(b"&"):
            k, _, v = kv.partition(b"=")
            params[pct_decode(k)] = pct_decode(v)
    headers = {}
    for ln in lines[1:]:
        k, _, v = ln.partition(b": ")
        headers[k] = v
    return method, path, params, headers, body


def serialize_httpx_request(req):
    lines = [req.method.encode() + b" " + req.url.raw_path + b" HTTP/1.1"]
    for k, v in req.headers.raw:
        lines.append(k + b": " + v)
    return b"\r\n".join(lines) + b"\r\n\r\n" + req.content


# ---- the reference team server ------------------------------------------------------------------------------------
class Peer:
    def __init__(self, model, key, script, seed):
        self.m = model
        self.key = key
        self.script = list(script)  # responses for successive check-ins
        self.rng = random.Random(seed)
        self.saw = []  # ("metadata", fields, info) / ("callback", counter, cbid, data)
        self.sent = []  # per check-in: None or (epoch, command, data)
        self.keys = None
        self.errors = []

    def handle(self, wire):
        """-> (status, headers list, body, what)"""
        method, path, params, headers, body = parse_request_wire(wire)
        m = self.m
        msg = {"uri": path, "params": params, "headers": headers, "body": body}
        if method == m["verb_post"].encode() and path.startswith(m["submit_uri"].encode()):
            dec = codec.ref_decode(_prog(m["post_prog"], "id"), msg, m["submit_uri"].encode())
            out = dec.get("output") or b""
            while out:
                (ln,) = struct.unpack(">I", out[:4])
                frame, out = out[4 : 4 + ln], out[4 + ln :]
                ct, sig = frame[:-16], frame[-16:]
                if self.keys is None or R.hmac_sha256(self.keys[1], ct)[:16] != sig:
                    self.errors.append("callback with bad signature")
                    continue
                pt = R.cbc_decrypt(self.keys[0], b"abcdefghijklmnop", ct)
                counter, size, cbid = struct.unpack(">III", pt[:12])
                self.saw.append(("callback", counter, cbid, pt[12 : 12 + size], dec.get("id")))
            return 200, [(b"Content-Type", b"text/html")], b"", "post"
        if method == m["verb_get"].encode() and any(path.startswith(u.encode()) for u in m["uris"]):
            base = max((u.encode() for u in m["uris"] if path.startswith(u.encode())), key=len)
            dec = codec.ref_decode(_prog(m["get_prog"], "metadata"), msg, base)
            blob = dec.get("metadata") or b""
            raw = R.rsa_decrypt_pkcs1(self.key.n, self.key.d, blob)
            if raw is None:
                self.errors.append("check-in metadata does not decrypt")
                return 404, [], b"", "get"
            f, info = R.meta_unpack(raw)
            self.saw.append(("metadata", f, info))
            d = hashlib.sha256(f["aes_rand"]).digest()
            self.keys = (d[:16], d[16:])
            what = self.script.pop(0) if self.script else ("nothing",)
            if what[0] == "nothing":
                self.sent.append(None)
                return 200, [(b"Content-Type", b"application/octet-stream")], b"", "get"
            if what[0] == "empty":
                payload = b""
                self.sent.append(None)
            elif what[0] == "batch":
                # several tasks queued for the beacon are delivered in one response: | epoch | total | (command | size | data)* |
                _, epoch, tasks = what
                recs = b"".join(struct.pack(">II", cmd, len(d)) + d for cmd, d in tasks)
                pt = struct.pack(">II", epoch, len(recs)) + recs
                ct, sig = R.ref_encrypt_packet(pt, self.keys[0], self.keys[1], b"abcdefghijklmnop")
                payload = ct + sig
                self.sent.append(("batch", epoch, [tuple(t) for t in tasks]))
            else:
                _, epoch, command, data = what
                pt = struct.pack(">IIII", epoch, 8 + len(data), command, len(data)) + data
                ct, sig = R.ref_encrypt_packet(pt, self.keys[0], self.keys[1], b"abcdefghijklmnop")
                payload = ct + sig
                self.sent.append((epoch, command, data))
            prog = [("BUILD", "output")] + [(op.upper(), (b"X" * a if not isinstance(a, bool) else a)) for op, a in reversed(m["recover_prog"])]
            enc = codec.ref_encode(prog, {"output": payload}, {"method": b"", "uri": b"", "params": {}, "headers": {}, "body": b""}, self.rng.getrandbits(32))
            return 200, [(b"Content-Type", b"application/octet-stream")], enc["body"], "get"
        return 404, [], b"", "unrelated"


def _prog(prog, build0):
    return [(op, (build0 if a == 0 else "output") if op == "BUILD" else a) for op, a in prog]


# ---- one session -----------------------------------------------------------------------------------------------------
def run_session(case):
    """Returns (trace, expectations, client-side observations, peer)."""
    import httpx

    from dissect.cobaltstrike import beacon, c2, client as cl
    from dissect.cobaltstrike.c_c2 import BeaconCallback

    rng = random.Random(case["seed"])
    settings, model = C.build_http_config(rng, keyname=case["key"], extras=False, allow_uri=case["allow_uri"])
    legacy = case.get("legacy")
    if legacy:
        # configurations of older Cobalt Strike releases: no host header setting (< 4.0); no configurable verbs (< 3.5)
        drop = {54} if legacy == "pre4.0" else {54, 26, 27}
        settings = [st for st in settings if st[0] not in drop]
        model["host_header"] = ""
        if legacy == "pre3.5":
            model["verb_get"], model["verb_post"] = "GET", "POST"
    cfg = beacon.BeaconConfig(tlv.encode(settings) + b"\0\0")
    key = R.load_key(case["key"])
    script = []
    for ev in case["history"]:
        if ev[0] == "checkin":
            script.append(tuple(ev[1]))
    peer = Peer(model, key, script, case["seed"] ^ 0x77)
    trace = []  # (direction, wire, kind)
    hc = httpx.Client(verify=False)

    def fake_request(method, url, headers=None, params=None, content=None, verify=None, **kw):
        if isinstance(method, bytes):
            method = method.decode()
        req = hc.build_request(method, url, headers=headers, params=params, content=content)
        wire = serialize_httpx_request(req)
        status, hdrs, body, what = peer.handle(wire)
        trace.append(("request", wire, what))
        resp_wire = b"HTTP/1.1 %d %s\r\n" % (status, b"OK" if status == 200 else b"NotFound") + b"".join(k + b": " + v + b"\r\n" for k, v in hdrs) + b"\r\n" + body
        trace.append(("response", resp_wire, what))
        return httpx.Response(status, headers=hdrs, content=body, request=req)

    real_httpx = cl.httpx
    shim = type("HttpxShim", (), {"request": staticmethod(fake_request), "RequestError": httpx.RequestError, "HTTPStatusError": httpx.HTTPStatusError})
    cl.httpx = shim
    obs = {"tasks": [], "callbacks": [], "errors": []}
    try:
        c = cl.HttpBeaconClient()
        if case["seed"] % 4 == 2:
            # the client object had an earlier life under another identity, check-in included (its traffic is not part of this
            # session's capture): nothing of it may appear in this session
            try:
                random.seed(case["seed"] ^ 0x0DD)
                c.run(cfg, dry_run=True, beacon_id=(case["beacon_id"] or 7) ^ 0x5A5A5, user="earlier", computer="OTHERHOST", process="old.exe")
                shim.request = staticmethod(lambda method, url, **kw: httpx.Response(200, content=b"", request=hc.build_request("GET", "http://earlier.invalid/")))
                c.get_task()
            except Exception:  # noqa: BLE001  (an empty answer need not be decodable; only the request matters here)
                pass
            finally:
                shim.request = staticmethod(fake_request)
        random.seed(case["seed"])
        try:
            c.run(cfg, dry_run=True, beacon_id=case["beacon_id"], user="user", computer="HOST", process="p.exe")
        except Exception as e:  # noqa: BLE001
            obs["errors"].append(f"client set-up for a well-formed HTTP configuration raised {type(e).__name__}: {e}")
            return cfg, model, key, c, peer, trace, obs
        if case["seed"] % 5 == 0:
            # run(writer=...): packets are also written as records; must not disturb the exchange
            import types as _types

            obs["records"] = []
            c.writer = _types.SimpleNamespace(write=obs["records"].append, flush=lambda: None)
        for ev in case["history"]:
            kind = ev[0]
            if kind == "checkin":
                random.seed(rng.getrandbits(32))
                try:
                    t = c.get_task()
                except Exception as e:  # noqa: BLE001
                    obs["errors"].append(f"get_task raised {type(e).__name__}: {e}")
                    t = "EXC"
                obs["tasks"].append(None if t is None else t if t == "EXC" else (t.epoch, int(t.command), t.size, bytes(t.data)))
                if ev[1][0] == "batch":
                    # the remaining tasks of the same response: no further request may be needed for them
                    n_req = sum(1 for d, w, k in trace if d == "request")
                    for _ in range(len(ev[1][2]) - 1):
                        try:
                            t = c.get_task()
                        except Exception as e:  # noqa: BLE001
                            obs["errors"].append(f"get_task raised {type(e).__name__}: {e}")
                            t = "EXC"
                        obs["tasks"].append(None if t is None else t if t == "EXC" else (t.epoch, int(t.command), t.size, bytes(t.data)))
                    if sum(1 for d, w, k in trace if d == "request") != n_req:
                        obs["errors"].append("tasks delivered in one response were not all handed out: the client polled again before handing out the remaining ones")
            elif kind == "callback":
                random.seed(rng.getrandbits(32))
                counter0 = c.counter
                try:
                    # the callback id is an int by signature; the IntEnum member and the wire enum member (the type of
                    # CallbackPacket.callback, i.e. what a decoder hands out) are ints too; ids outside the table stay ints
                    kind_of_id = (case["seed"] + len(obs["callbacks"])) % 3
                    if kind_of_id == 1 and ev[1] in set(BeaconCallback):
                        cb = BeaconCallback(ev[1])
                    elif kind_of_id == 2:
                        cb = c2.c2struct.BeaconCallback(ev[1])
                    else:
                        cb = int(ev[1])
                    c.send_callback(cb, ev[2])
                    obs["callbacks"].append((counter0 + 1, ev[1], ev[2]))
                except Exception as e:  # noqa: BLE001
                    obs["errors"].append(f"send_callback raised {type(e).__name__}: {e}")
            elif kind == "multi":
                random.seed(rng.getrandbits(32))
                out = b""
                for cbid, data in ev[1]:
                    c.counter += 1
                    pkt = c2.CallbackPacket(counter=c.counter, size=len(data), callback=BeaconCallback(cbid), data=data)
                    out += c2.encrypt_packet(pkt.dumps(), **c.c2http.beacon_keys._asdict()).dumps()
                    obs["callbacks"].append((c.counter, cbid, data))
                req = c.c2http.transform_submit.transform(c2.ClientC2Data(id=str(c.beacon_id).encode(), output=out), request=c._initial_post_request())
                url = c.base_url + req.uri.decode()  # the URI is a path on the C2 host
                fake_request(req.method, url, headers=req.headers, params={k.decode(): v.decode() for k, v in req.params.items()}, content=req.body)
            elif kind == "unrelated":
                how = ev[1]
                m = model
                if how == "verb":
                    wire = b"PUT " + m["uris"][0].encode() + b" HTTP/1.1\r\nHost: x\r\n\r\n"
                elif how == "uri":
                    wire = m["verb_get"].encode() + b" /totally/unrelated.html HTTP/1.1\r\nHost: x\r\n\r\n"
                elif how == "near":
                    u = rng.choice(m["uris"] + [m["submit_uri"]])
                    verb = m["verb_post"] if u == m["submit_uri"] else m["verb_get"]
                    # near misses: last character missing, or a sibling that shares everything but the final character(s)
                    miss = rng.choice([u[:-1], u[:-1] + ".5/status", u[:-1] + "x", u.rstrip("/") + "ted?id=7"])
                    if miss.startswith(u):
                        miss = u[:-1]
                    wire = verb.encode() + b" " + miss.encode() + b" HTTP/1.1\r\nHost: x\r\n\r\nbody"
                elif how == "swapped":
                    # get verb on the submit URI / post verb on a get URI (only unrelated when the verbs differ)
                    if m["verb_get"] == m["verb_post"]:
                        wire = b"PUT /x HTTP/1.1\r\nHost: x\r\n\r\n"
                    else:
                        wire = m["verb_get"].encode() + b" " + m["submit_uri"].encode() + b" HTTP/1.1\r\nHost: x\r\n\r\nbody"
                else:
                    wire = b"OPTIONS * HTTP/1.1\r\nHost: x\r\n\r\n"
                # "unrelated" by the statement's routing rule: neither (get verb, get-URI prefix) nor (post verb, submit-URI prefix)
                meth, target = wire.split(b" ")[0:2]
                if (meth == m["verb_get"].encode() and any(target.startswith(u.encode()) for u in m["uris"])) or (
                    meth == m["verb_post"].encode() and target.startswith(m["submit_uri"].encode())
                ):
                    wire = b"PUT " + target + b" HTTP/1.1\r\nHost: x\r\n\r\n"
                trace.append(("request", wire, "unrelated"))
    finally:
        cl.httpx = real_httpx
        hc.close()
    return cfg, model, key, c, peer, trace, obs


def decode_trace(dec, trace, model, rsa, c2, keys=None):
    """Feeds the trace to a decoder; returns (list of normalised packets per message, error or None)."""
    out = []
    for direction, wire, what in trace:
        try:
            pk = list(dec.iter_recover_http(wire) if keys is None else dec.iter_recover_http(wire, keys=keys))
        except ValueError as e:
            out.append(("ValueError", str(e)[:80]))
            continue
        except Exception as e:  # noqa: BLE001
            out.append(("EXC", f"{type(e).__name__}: {str(e)[:120]}"))
            continue
        norm = []
        for p in pk:
            n = type(p).__name__
            if n == "BeaconMetadata":
                norm.append(("metadata", int(p.bid), bytes(p.aes_rand), int(p.pid), bytes(p.info)))
            elif n == "TaskPacket":
                norm.append(("task", int(p.epoch), int(p.command), int(p.size), bytes(p.data)))
            elif n == "CallbackPacket":
                norm.append(("callback", int(p.counter), int(p.callback), bytes(p.data)))
            else:
                norm.append(("?", n))
        out.append(("ok", norm))
    return out


def expected_trace(trace, client, peer, obs, with_metadata):
    exp = []
    sent = list(peer.sent)
    cbs = list(obs["callbacks"])
    md = ("metadata", client.beacon_id, client.aes_rand, client.pid, bytes(client.metadata.info))
    # group callbacks per POST message in order
    post_groups = obs["_post_groups"]
    gi = 0
    for direction, wire, what in trace:
        if what == "unrelated":
            exp.append(("ValueError",))
        elif direction == "request" and what == "get":
            exp.append(("ok", [md] if with_metadata else []))
        elif direction == "response" and what == "get":
            s = sent.pop(0)
            if s is not None and s[0] == "batch":
                exp.append(("ok", [("task", s[1], cmd, len(d), d) for cmd, d in s[2]]))
            else:
                exp.append(("ok", [] if s is None else [("task", s[0], s[1], len(s[2]), s[2])]))
        elif direction == "request" and what == "post":
            n = post_groups[gi]
            gi += 1
            exp.append(("ok", [("callback", c, i, d) for c, i, d in cbs[:n]]))
            cbs = cbs[n:]
        elif direction == "response" and what == "post":
            exp.append(("ok", []))
    return exp


def judge(case, ctx):
    from dissect.cobaltstrike import c2

    cfg, model, key, client, peer, trace, obs = run_session(case)
    obs["_post_groups"] = [1 if ev[0] == "callback" else len(ev[1]) for ev in case["history"] if ev[0] in ("callback", "multi")]
    if obs["errors"]:
        return ("client.exception", obs["errors"][0], None)
    if peer.errors:
        return ("peer.saw", f"the reference team server could not use the client's message: {peer.errors[0]}", "peer")
    # the client got the tasks that were sent
    if ctx:
        ctx.mon("client.get_task")
    want_tasks = []
    for s in peer.sent:
        if s is not None and s[0] == "batch":
            want_tasks += [(s[1], cmd, len(d), d) for cmd, d in s[2]]
        else:
            want_tasks.append(None if s is None or s[1] == 6 else (s[0], s[1], len(s[2]), s[2]))
    if obs["tasks"] != want_tasks:
        i = next((k for k, (a, b) in enumerate(zip(obs["tasks"], want_tasks)) if a != b), 0)
        return ("client.get_task", f"check-in #{i}: get_task() returned {core.short(obs['tasks'][i] if i < len(obs['tasks']) else None)} but the server sent {core.short(want_tasks[i] if i < len(want_tasks) else None)}", "response")
    # the server saw what the client passed in
    if ctx:
        ctx.mon("peer.saw")
    saw_cb = [(c, i, d) for k, c, i, d, _ in [s for s in peer.saw if s[0] == "callback"]]
    if saw_cb != obs["callbacks"]:
        return ("peer.saw", f"server decoded callbacks {core.short(saw_cb)} but the client sent {core.short(obs['callbacks'])}", "post")
    ids = {s[4] for s in peer.saw if s[0] == "callback"}
    if ids - {str(client.beacon_id).encode()}:
        return ("peer.saw", f"server decoded session id {ids}, client id is {client.beacon_id}", "post")
    for s in peer.saw:
        if s[0] == "metadata":
            f, info = s[1], s[2]
            if (f["magic"], f["bid"], f["aes_rand"], f["pid"], info) != (0xBEEF, client.beacon_id, client.aes_rand, client.pid, bytes(client.metadata.info)):
                return ("peer.saw", f"server decoded metadata {core.short(f)} differs from the client's", "get")
    # offline: decode the trace with each key variant
    variants = {
        "trace.rsa_only": dict(rsa_private_key=key),
        "trace.aes_rand": dict(aes_rand=client.aes_rand),
        "trace.aes_hmac": dict(aes_key=client.aes_key, hmac_key=client.hmac_key),
        # partial key material completed from the metadata: the missing HMAC key must be derived at the first check-in
        "trace.rsa_plus_aes": dict(rsa_private_key=key, aes_key=client.aes_key),
        # AES key alone can only decrypt without verification
        "trace.aes_noverify": dict(aes_key=client.aes_key, verify_hmac=False),
        # a decoder that holds ANOTHER session's keys, given this session's keys per call (keys=): the per-call keys decide
        "trace.keys_argument": dict(aes_rand=bytes(b ^ 0x5A for b in client.aes_rand)),
    }
    for name, kw in variants.items():
        if ctx:
            ctx.mon(name)
        try:
            dec = c2.C2Http(cfg, **kw)
        except Exception as e:  # noqa: BLE001
            return (name, f"[{name}] decoder construction for a well-formed HTTP configuration raised {type(e).__name__}: {e}", None)
        per_call = c2.BeaconKeys.from_aes_rand(client.aes_rand) if name == "trace.keys_argument" else None
        got = decode_trace(dec, trace, model, "rsa_private_key" in kw, c2, keys=per_call)
        exp = expected_trace(trace, client, peer, obs, "rsa_private_key" in kw)
        if name == "trace.aes_noverify" and case["seed"] % 4:
            continue  # sampled: a quarter of the sessions
        for i, (g, e, (direction, wire, what)) in enumerate(zip(got, exp, trace)):
            if what == "unrelated":
                if ctx:
                    ctx.mon("unrelated.rejected")
                if g[0] != "ValueError":
                    return ("unrelated.rejected", f"[{name}] unrelated request {wire[:60]!r} was not rejected with ValueError: {core.short(g)}", "unrelated")
                continue
            if ctx:
                ctx.mon("routing")
            # routing monitor: the transform chosen must follow from (verb, URI prefix) / response alone
            try:
                chosen = dec.get_transform_for_http(wire)
            except Exception as ex:  # noqa: BLE001
                chosen = f"{type(ex).__name__}"
            want_t = dec.transform_response if direction == "response" else dec.transform_get if what == "get" else dec.transform_submit
            if chosen is not want_t:
                names = {id(dec.transform_get): "get", id(dec.transform_submit): "post", id(dec.transform_response): "response"}
                return ("routing", f"[{name}] message #{i} ({direction} of a {what}) routed to {names.get(id(chosen), chosen)!r} transform", what if direction == "request" else "response", i)
            if g != e:
                return (name, f"[{name}] message #{i} ({direction} of a {what}): decoder yielded {core.short(g, 120)}, sent {core.short(e, 120)}", what if direction == "request" else "response", i)
    return None


def check_case(case, ctx):
    from dissect.cobaltstrike import c2

    contracts.install_c2()
    contracts.take()
    r = judge(case, ctx)
    if r:
        key = None
        if case["allow_uri"] and r[2] in ("get", "post", "peer"):
            key = _attribute_uri(case, r, c2)
        ctx.violation(r[0], r[1], case, key=key)
        return
    br = contracts.take()
    if br:
        ctx.violation(br[0][0], br[0][1], case)
        return
    hist = case["history"]
    nt = any(ev[0] in ("callback", "multi") or (ev[0] == "checkin" and ev[1][0] == "task") for ev in hist)
    ctx.ok(fp=(case["seed"], case["key"], repr(hist)), nontrivial=nt, case={k: v for k, v in case.items()},
           classes=(f"key:{case['key'][:7]}", f"uri_append:{case['allow_uri']}", f"layout:{case.get('legacy') or 'current'}", *{f"ev:{ev[0]}{':' + ev[1][0] if ev[0] == 'checkin' else ''}" for ev in hist}))


def _attribute_uri(case, r, c2):
    """Counterfactual for the known finding: the failing request decodes once the base URI is stripped."""
    try:
        cfg, model, key, client, peer, trace, obs = run_session(case)
    except Exception:  # noqa: BLE001
        return None
    which = r[2]
    prog = model["get_prog"] if which == "get" else model["post_prog"]
    if which == "peer":
        return None
    if not any(op == "URI_APPEND" for op, _ in prog):
        return None
    idx = r[3] if len(r) > 3 else None
    if idx is None:
        return None
    direction, wire, what = trace[idx]
    dec = c2.C2Http(cfg, aes_key=client.aes_key, hmac_key=client.hmac_key, rsa_private_key=key)
    http = c2.parse_raw_http(wire)
    bases = [u.encode() for u in model["uris"]] if which == "get" else [model["submit_uri"].encode()]
    base = max((b for b in bases if http.uri.startswith(b)), key=len, default=b"")
    transform = dec.transform_get if which == "get" else dec.transform_submit
    dec.get_transform_for_http = lambda h: transform
    try:
        pk = list(dec.iter_recover_http(http._replace(uri=http.uri[len(base) :])))
    except Exception:  # noqa: BLE001
        return None
    names = [type(p).__name__ for p in pk]
    if (which == "get" and names == ["BeaconMetadata"] and int(pk[0].bid) == client.beacon_id) or (which == "post" and names and set(names) == {"CallbackPacket"}):
        return KF_URI
    return None


def gen_history(rng):
    hist = [("checkin", ("nothing",))] if rng.random() < 0.5 else []
    n = rng.randrange(1, 12)
    epoch = 1700000000
    for _ in range(n):
        r = rng.random()
        if r < 0.45:
            k = rng.choice(["nothing", "empty", "noop", "task", "task", "task", "batch"])
            if k == "batch":
                tasks = [(rng.choice([1, 2, 3, 4, 5, 27, 32, 39, 53, 100]), rng.randbytes(rng.choice([0, 1, 8, 9, 11, 16, 100]))) for _ in range(rng.randrange(2, 5))]
                hist.append(("checkin", ("batch", epoch + rng.randrange(0, 10000), tasks)))
            elif k == "noop":
                hist.append(("checkin", ("task", epoch, 6, b"")))
            elif k == "task":
                ln = rng.choice([0, 1, 15, 16, 17, 100, rng.randrange(0, 4097)])
                hist.append(("checkin", ("task", epoch + rng.randrange(0, 10000), rng.choice([1, 2, 3, 4, 5, 27, 32, 39, 53, 100]), rng.randbytes(ln))))
            else:
                hist.append(("checkin", (k,)))
        elif r < 0.75:
            hist.append(("callback", rng.choice([0, 17, 19, 30, 31, 32, 32, 33, 99]), rng.randbytes(rng.choice([0, 1, 16, 200, rng.randrange(0, 3000)]))))
        elif r < 0.85:
            hist.append(("multi", [(rng.choice([0, 30, 32]), rng.randbytes(rng.choice([0, 5, 64, 500]))) for _ in range(rng.randrange(2, 5))]))
        else:
            hist.append(("unrelated", rng.choice(["verb", "uri", "near", "swapped", "star"])))
    if not any(ev[0] == "checkin" for ev in hist) or hist[0][0] != "checkin":
        hist.insert(0, ("checkin", ("nothing",)))
    return hist


def plan(tier, seed):
    q = tier == "quick"
    shards = [{"kind": "sessions", "n": 22 if q else 1300, "budget_s": 50 if q else 2400, "timeout_s": 300 if q else 5400} for _ in range(16)]
    return shards


def run_shard(shard, ctx):
    rng = ctx.rng
    for _ in range(shard["n"]):
        if ctx.out_of_time():
            break
        case = {"seed": rng.getrandbits(32), "key": rng.choice(["rsa1024_a", "rsa1024_b", "rsa2048_a"]), "allow_uri": rng.random() < 0.15,
                "beacon_id": rng.randrange(0, 2**31), "history": gen_history(rng), "legacy": rng.choice([None, None, None, "pre4.0", "pre3.5"])}
        check_case(case, ctx)


LEVEL_TEXT = (
    "Exploration over (configuration x history x key material): the real beacon client runs hundreds (thorough: ~20 000) of "
    "sessions against a reference team-server peer through an httpx-level recorder; the peer decodes every request with "
    "the reference codec and own RSA/AES/HMAC and answers scripted tasks; an offline checker feeds the recorded wire trace "
    "to one C2Http per key variant and compares the yielded packets, field for field and in order, with what was sent; "
    "unrelated requests must raise ValueError; get_task() results and what the peer saw are compared with the script."
)
LEVEL_NOTE = "Held on the sessions explored; trusted base: the reference peer (codec, crypto, HTTP split) and httpx's own request builder."
TECHNIQUE = "history recorder at the client boundary (httpx shim) + reference peer + offline trace checker per key variant; known finding attributed by counterfactual decode"
