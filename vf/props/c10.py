"""C10 - regenerated profile text preserves every token of the parsed profile.

Monitors: own tokenizer over source and regenerated text (token sequences must be equal); tree equality
after re-parsing; a production-coverage monitor over the frozen language table (every statement form at
least once, each alone in its block and in random mixtures) and against the live grammar's rule list."""

from __future__ import annotations

import random

from vf import core
from vf.ref import profile as PR
from vf.ref.profile_lang import LANG

ID = "C10"
LEVEL = "exploration"
RULE = (
    "a case is one profile text generated from the frozen table of the profile language: (a) for every production and every "
    "nesting context that reaches it, one profile containing that statement form alone in its block (317 chains); (b) random "
    "profiles of 1..80 statements with arbitrary block order, repeats, empty blocks, variants on the four variant-capable "
    "blocks, hostile string literals, comments and whitespace noise. Non-trivial: profile with at least one statement inside "
    "a block or a hostile literal. Distinct = distinct source text."
)
ASSUMPTIONS = [
    "the '# dns_resolver' production is not a sentence of the text language ('#' starts a comment) and is exercised through the builder in C13 only",
    "comments and whitespace are not part of the token sequence",
    "the language is what the grammar at the pinned commit accepts: in particular a string literal may hold a backslash in front of any character, line feed included (frozen in vf/ref/profile.py's tokenizer)",
]
REQUIRED_MONITORS = ["tokens.equal", "tree.reparse", "accepted", "parse.independent", "from_path.same", "views.history"]
EXHAUSTIVE_WHEN = ["every_production_chain"]


def check_case(case, ctx):
    from dissect.cobaltstrike import c2profile

    text = case["text"]
    ctx.mon("accepted")
    try:
        prof = c2profile.C2Profile.from_text(text)
    except Exception as e:  # noqa: BLE001
        ctx.violation("accepted", f"profile of the language rejected by the parser: {type(e).__name__}: {str(e)[:300]}", case)
        return
    import logging

    lg = logging.getLogger("dissect.cobaltstrike.c2profile")
    old_level = lg.level
    if case.get("debug_logging"):
        # the host program runs with debug logging switched on: the regenerated text is the same
        lg.setLevel(logging.DEBUG)
        if not lg.handlers:
            lg.addHandler(logging.NullHandler())
        lg.propagate = False
        logging.disable(logging.NOTSET)  # (the harness silences library logging globally, see vf/core.py)
    try:
        out = prof.as_text()
    except Exception as e:  # noqa: BLE001
        ctx.violation("tokens.equal", f"as_text() raised {type(e).__name__}: {str(e)[:300]}", case)
        return
    finally:
        lg.setLevel(old_level)
        if case.get("debug_logging"):
            logging.disable(logging.CRITICAL)
    ctx.mon("tokens.equal")
    src_tokens = PR.tokenize(text)
    try:
        out_tokens = PR.tokenize(out)
    except ValueError as e:
        ctx.violation("tokens.equal", f"regenerated text cannot be tokenised: {e}", case)
        return
    if src_tokens != out_tokens:
        i = next((k for k, (a, b) in enumerate(zip(src_tokens, out_tokens)) if a != b), min(len(src_tokens), len(out_tokens)))
        ctx.violation("tokens.equal", f"token #{i}: source has {src_tokens[max(i - 2, 0) : i + 2]!r}, regenerated text has {out_tokens[max(i - 2, 0) : i + 2]!r} ({len(src_tokens)} vs {len(out_tokens)} tokens)", case)
        return
    ctx.mon("tree.reparse")
    try:
        again = c2profile.C2Profile.from_text(out)
    except Exception as e:  # noqa: BLE001
        ctx.violation("tree.reparse", f"regenerated text does not parse: {type(e).__name__}: {str(e)[:300]}", case)
        return
    if again.tree != prof.tree:
        ctx.violation("tree.reparse", "parsing the regenerated text gives a different tree", case)
        return
    if str(prof) != out:
        ctx.violation("tree.reparse", "str(profile) differs from as_text()", case)
        return
    if case.get("via_path"):
        # the file constructor must give the same profile as the text constructor for the same characters
        import os
        import tempfile

        ctx.mon("from_path.same")
        fd, tmp = tempfile.mkstemp(prefix="vf_c10_", suffix=".profile")
        try:
            os.close(fd)
            # written the way from_path() reads: text mode, the platform's default encoding, no newline translation
            with open(tmp, "w", newline="") as f:
                f.write(text)
            try:
                via = c2profile.C2Profile.from_path(tmp)
            except Exception as e:  # noqa: BLE001
                ctx.violation("from_path.same", f"from_path() on a file holding an accepted profile raised {type(e).__name__}: {str(e)[:200]}", case)
                return
            # the command line tool is a third reader of the same file: `c2profile-dump -t c2profile FILE`
            import contextlib
            import io as _io
            import sys as _sys

            argv, buf = _sys.argv, _io.StringIO()
            _sys.argv = ["c2profile-dump", "-t", "c2profile", tmp]
            try:
                with contextlib.redirect_stdout(buf):
                    rc = c2profile.main()
            except SystemExit as e:
                rc = e.code
            except Exception as e:  # noqa: BLE001
                rc = f"{type(e).__name__}: {e}"
            finally:
                _sys.argv = argv
            if rc not in (0, None) or PR.tokenize(buf.getvalue()) != src_tokens:
                ctx.violation("from_path.same", f"c2profile-dump -t c2profile prints other tokens than the file holds (exit {rc!r}; string literals altered?)", case)
                return
        finally:
            os.unlink(tmp)
        if via.tree != prof.tree or PR.tokenize(via.as_text()) != src_tokens:
            ctx.violation("from_path.same", "from_path() gives a different profile than from_text() for the same characters (string literals altered?)", case)
            return
    if case.get("reparse_after_edit"):
        # state must not survive between parses: edit this profile, then parse the same text again
        ctx.mon("parse.independent")
        try:
            prof.set_option("sleeptime", "31337")
            prof.tree.children.insert(0, prof.tree.children[-1])
            fresh = c2profile.C2Profile.from_text(text)
            fresh_tokens = PR.tokenize(fresh.as_text())
        except Exception as e:  # noqa: BLE001
            ctx.violation("parse.independent", f"second parse of the same text after editing the first profile: {type(e).__name__}: {str(e)[:200]}", case)
            return
        if fresh_tokens != src_tokens:
            extra = [t for t in fresh_tokens if t not in src_tokens][:6]
            ctx.violation("parse.independent", f"a second parse of the same text, after the first profile was edited, regenerates {len(fresh_tokens)} tokens instead of {len(src_tokens)} (not in source: {extra})", case)
            return
    if case.get("view_history"):
        # both views of one profile object, read and re-read around edits, in any order: the text after the history is the
        # text of a fresh parse of the same source with the same edits applied and no views read in between
        import random as _random

        ctx.mon("views.history")
        hr = _random.Random(case["view_history"])
        edits = 0
        try:
            ref = c2profile.C2Profile.from_text(text)
            for _ in range(hr.randrange(3, 9)):
                op = hr.choice(["text", "dict", "properties", "edit", "edit"])
                if op == "text":
                    prof.as_text()
                elif op == "dict":
                    prof.as_dict()
                elif op == "properties":
                    prof.properties  # noqa: B018
                else:
                    edits += 1
                    name, val = hr.choice([("sleeptime", str(31337 + edits)), ("jitter", str(edits)), ("useragent", f"agent {edits}")])
                    prof.set_option(name, val)
                    ref.set_option(name, val)
            got_tokens = PR.tokenize(prof.as_text())
            want_tokens = PR.tokenize(ref.as_text())
        except Exception as e:  # noqa: BLE001
            ctx.violation("views.history", f"history of as_text / as_dict / set_option calls raised {type(e).__name__}: {str(e)[:200]}", case)
            return
        if got_tokens != want_tokens:
            ctx.violation("views.history", f"after a history of view reads and {edits} edits as_text() gives {len(got_tokens)} tokens; the same edits on a fresh parse "
                          f"without view reads give {len(want_tokens)} (stale text?)", case)
            return
    nt = "{" in src_tokens or any(c in text for c in ("\\x", "\\\"", "\\\\"))
    ctx.ok(fp=text, nontrivial=nt, case={"text": text, "kind": case.get("kind")},
           classes=tuple(f"prod:{r}:{a}" for r, a in case.get("productions", [])) + (f"kind:{case.get('kind')}",))


def finalize(classes, monitors, tier):
    """production coverage: every production of the frozen table must have been generated (and therefore accepted)"""
    want = set()
    for rule, alts in LANG.items():
        if rule in ("OPTION", "start", "string", "variant", "header"):  # not statement forms / unused helper rule
            continue
        for i, a in enumerate(alts):
            if a["alias"] in PR.EXCLUDED_ALIASES:
                continue
            want.add(f"prod:{rule}:{a['alias'] if a['alias'] else '#%d' % i}")
    seen = {c for c in classes if c.startswith("prod:")}
    missing = sorted(want - seen)
    notes = {"productions_in_table": len(want), "productions_exercised": len(want & seen)}
    inconclusive = [f"productions of the language never exercised: {missing[:8]}"] if missing else []
    # live grammar vs table
    try:
        from dissect.cobaltstrike.c2profile import c2profile_parser

        live = {(r.origin.name, r.alias) for r in c2profile_parser.rules if not r.origin.name.startswith("__")}
        table = {(rule, a["alias"]) for rule, alts in LANG.items() if rule != "OPTION" for a in alts}
        extra = sorted(str(x) for x in live - table if x[1] is not None)
        if extra:
            notes["live_grammar_forms_unknown_to_the_table"] = extra[:20]
    except Exception as e:  # noqa: BLE001
        notes["live_grammar_check"] = f"failed: {e}"
    return notes, inconclusive


def plan(tier, seed):
    q = tier == "quick"
    chains = PR.production_chains()
    shards = []
    nparts = 8
    for part in range(nparts):
        shards.append({"kind": "chains", "part": part, "parts": nparts, "reps": 1 if q else 6})
    for _ in range(8):
        shards.append({"kind": "random", "n": 55 if q else 3500})
    shards.append({"kind": "everything"})
    for s in shards:
        s["budget_s"] = 50 if q else 2400
        s["timeout_s"] = 300 if q else 5400
    return shards


def run_shard(shard, ctx):
    rng = ctx.rng
    kind = shard["kind"]
    if kind == "chains":
        chains = PR.production_chains()
        mine = chains[shard["part"] :: shard["parts"]]
        for rep in range(shard["reps"]):
            for ch in mine:
                if ctx.out_of_time():
                    return
                s = PR.gen_profile(rng, force=ch, hostile=rep > 0)
                check_case({"text": PR.render(s.tokens, rng, noise=rep > 0), "kind": "single-production", "productions": sorted(s.productions)}, ctx)
        ctx.exhaustive["every_production_chain"] = True
    elif kind == "random":
        for _ in range(shard["n"]):
            if ctx.out_of_time():
                break
            s = PR.gen_profile(rng, max_statements=rng.choice([5, 20, 40, 80]), hostile=rng.random() < 0.7)
            if rng.random() < 0.3:
                # literal text the lexer accepts although it is none of the documented escapes: a backslash in front of a
                # line feed (line continuation), of a blank, of any other character.  What it means is not this property's
                # subject; that the token comes back unchanged is.
                toks = list(s.tokens)
                for k, t in enumerate(toks):
                    if t.startswith('"') and len(t) >= 2 and rng.random() < 0.15:
                        toks[k] = '"' + rng.choice(["\\\n", "\\ ", "\\/", "\\q", "\\;", "\\\r\n", "function f() {\n\n return 1; }", "{\n \n", "a {\n\t\nb", "}\n\n{"]) + t[1:]
                s.tokens = toks
            via_path = rng.random() < 0.25
            try:
                "\u00e9\ufeff\u20ac\u65e5".encode(__import__("locale").getpreferredencoding(False))
                nonascii_ok = True
            except (UnicodeEncodeError, LookupError):
                nonascii_ok = not via_path  # a platform encoding that cannot hold these characters: only through from_text
            if nonascii_ok and rng.random() < 0.25:
                # raw characters outside ASCII inside literals (scraped page content): zero-width and byte-order-mark
                # characters included - the token comes back unchanged
                toks = list(s.tokens)
                for k, t in enumerate(toks):
                    if t.startswith('"') and len(t) >= 2 and rng.random() < 0.3:
                        ins = rng.choice(["\u00e9", "\ufeff", "\u200b", "\u20ac 5", "\u00a0", "\u65e5\u672c", "\ufeff\ufeff", "\u00ff\u0100"])
                        toks[k] = t[:1] + ins + t[1:] if rng.random() < 0.5 else t[:-1] + ins + t[-1:]
                s.tokens = toks
            text = PR.render(s.tokens, rng)
            if via_path and rng.random() < 0.6:
                # Windows line endings in the file and raw CR / CRLF inside multi-line literals
                text = text.replace("\n", "\r\n")
            rae = rng.random() < 0.3
            check_case({"text": text, "kind": "random", "productions": sorted(s.productions), "reparse_after_edit": rae, "via_path": via_path,
                        "view_history": rng.getrandbits(30) + 1 if not rae and rng.random() < 0.5 else 0, "debug_logging": rng.random() < 0.2}, ctx)
    elif kind == "everything":
        # one profile with every production chain concatenated
        toks = []
        prods = set()
        for ch in PR.production_chains():
            s = PR.gen_profile(rng, force=ch, hostile=False)
            toks += s.tokens
            prods |= s.productions
        check_case({"text": PR.render(toks, rng, noise=False), "kind": "everything", "productions": sorted(prods)}, ctx)
        check_case({"text": "", "kind": "empty", "productions": []}, ctx)
        check_case({"text": "# only a comment\n\n", "kind": "empty", "productions": []}, ctx)
    else:
        raise ValueError(kind)


LEVEL_TEXT = (
    "Exploration over the sentences of the profile language: every production of a frozen language table is generated in "
    "every nesting context that reaches it (317 chains, each statement form alone in its block) plus hundreds (thorough: "
    "~28 000) of random profiles with variants, repeats, empty blocks, hostile literals and comment/whitespace noise; for "
    "each, an own tokenizer compares the token sequence of the source with that of as_text(), the regenerated text is "
    "re-parsed and its tree compared; histories of as_text / as_dict / properties reads interleaved with edits are compared "
    "with a fresh parse that received only the edits; a coverage monitor fails the run if a production was never exercised."
)
LEVEL_NOTE = "Held on the profiles generated; trusted base: the frozen language table (vf/ref/profile_lang.py) and the own tokenizer."
TECHNIQUE = "grammar-based workload generator + reference tokenizer monitor (token-sequence equality) + re-parse tree equality + production-coverage monitor"
