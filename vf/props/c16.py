"""C16 - raw HTTP messages are parsed into exactly their parts.

Monitor: reference serializer (model -> wire bytes) beside parse_raw_http; the parsed object must equal the
model; malformed start lines must raise ValueError and nothing else."""

from __future__ import annotations

import string

from vf import core

ID = "C16"
LEVEL = "exploration"
RULE = (
    "request cases are models (method token, ASCII origin-form path of RFC 3986 pchars with a single leading slash, "
    "ordered parameter list with arbitrary key/value bytes and non-empty values - percent-encoded on the wire with "
    "random literal/escaped choices, space as %20 or '+' -, ordered header list in 'Key: value' form incl. duplicates, "
    "empty values and zero headers, arbitrary binary body incl. CRLFCRLF and NUL) serialised by the reference; response "
    "cases are (version, status 100..999, single-token reason, headers, body); malformed cases are start lines with "
    "0,1,2,4+ parts, empty, whitespace-only, non-numeric status. Non-trivial: request with parameters or a body "
    "containing CRLF/NUL, any response, any malformed line. Distinct = distinct wire bytes."
)
ASSUMPTIONS = [
    "paths are origin-form paths of RFC 3986 pchars (empty segments allowed, so a path may start with '//'), one in ten with arbitrary other bytes except the request line's delimiters and '?'; header keys contain no ': ' and no CR/LF; values contain no CR/LF",
    "duplicate header / parameter names follow dict semantics (last one wins)",
    "reasons are single tokens (the statement's quantifier), so 'Not Found' is outside",
]
REQUIRED_MONITORS = ["request.model", "response.model", "malformed.rejected", "parse.independent"]

UNRESERVED = (string.ascii_letters + string.digits + "-._~").encode()
PATH_LIT = UNRESERVED + b"!$&'()*+,=:@;"
QUERY_LIT = UNRESERVED + b"!$'()*,/:@;"
TOKEN = (string.ascii_letters + string.digits + "!#$%&'*+-.^_`|~").encode()


def pct(b, rng, lower=False):
    return (b"%%%02x" if lower else b"%%%02X") % b


def enc_component(data, rng):
    out = bytearray()
    for b in data:
        if b == 0x20 and rng.random() < 0.5:
            out += b"+"
        elif b in QUERY_LIT and rng.random() < 0.85:
            out.append(b)
        else:
            out += pct(b, rng, rng.random() < 0.3)
    return bytes(out)


def serialize_request(m, rng):
    q = b"&".join(enc_component(k, rng) + b"=" + enc_component(v, rng) for k, v in m["params"])
    target = m["path"] + (b"?" + q if m["params"] else b"")
    head = m["method"] + b" " + target + b" " + m["version"]
    lines = [head] + [k + b": " + v for k, v in m["headers"]]
    return b"\r\n".join(lines) + b"\r\n\r\n" + m["body"]


def serialize_response(m):
    head = m["version"] + b" " + str(m["status"]).encode() + b" " + m["reason"]
    lines = [head] + [k + b": " + v for k, v in m["headers"]]
    return b"\r\n".join(lines) + b"\r\n\r\n" + m["body"]


def check_case(case, ctx):
    from dissect.cobaltstrike import c2

    op = case["op"]
    wire = case["wire"]
    try:
        got = c2.parse_raw_http(wire)
        exc = None
    except ValueError as e:
        got, exc = None, e
    except Exception as e:  # noqa: BLE001
        ctx.violation(f"{op}.exception", f"{type(e).__name__}: {e} for {core.short(wire, 120)}", case)
        return
    if op == "malformed":
        ctx.mon("malformed.rejected")
        if exc is None:
            ctx.violation("malformed.rejected", f"start line {wire.split(b'\r\n')[0]!r} accepted as {got!r}", case)
            return
        ctx.ok(fp=wire, case=case, classes=(f"malformed:{case['what']}",))
        return
    m = case["model"]
    if exc is not None:
        ctx.violation(f"{op}.model", f"well-formed {op} rejected: {exc}", case)
        return
    headers = {k: v for k, v in m["headers"]}
    if op == "request":
        ctx.mon("request.model")
        params = {k: v for k, v in m["params"]}
        if not isinstance(got, c2.HttpRequest):
            ctx.violation("request.model", f"parsed as {type(got).__name__}", case)
            return
        diffs = []
        if bytes(got.method) != m["method"]:
            diffs.append(f"method {got.method!r} != {m['method']!r}")
        if bytes(got.uri) != m["path"]:
            diffs.append(f"path {got.uri!r} != {m['path']!r}")
        if dict(got.params) != params:
            diffs.append(f"params {got.params!r} != {params!r}")
        if dict(got.headers) != headers:
            diffs.append(f"headers {got.headers!r} != {headers!r}")
        if bytes(got.body) != m["body"]:
            diffs.append(f"body {core.short(got.body, 60)} != {core.short(m['body'], 60)}")
        if diffs:
            ctx.violation("request.model", "; ".join(diffs)[:900], case)
            return
        if case.get("reparse_after_edit"):
            # the returned containers belong to the caller: editing them must not influence a later parse of the same bytes
            ctx.mon("parse.independent")
            got.params[b"session"] = b"injected"
            got.params.pop(next(iter(params), b"session"), None)
            got.headers[b"X-Injected"] = b"1"
            again = c2.parse_raw_http(wire)
            if dict(again.params) != params or dict(again.headers) != headers or bytes(again.uri) != m["path"]:
                ctx.violation("parse.independent", f"second parse of the same bytes after the first result was edited: params {again.params!r} (wire says {params!r}), headers {again.headers!r}", case)
                return
        nt = bool(m["params"]) or b"\r\n" in m["body"] or b"\0" in m["body"]
        ctx.ok(fp=wire, nontrivial=nt, case=case, classes=(
            f"params:{min(len(m['params']), 3)}", f"headers:{min(len(m['headers']), 3)}",
            "body:crlfcrlf" if b"\r\n\r\n" in m["body"] else "body:other",
            "params:highbytes" if any(max(k + v, default=0) >= 0x80 for k, v in m["params"]) else "params:ascii",
            "path:semicolon" if b";" in m["path"] else "path:plain", "path:empty-segment" if b"//" in m["path"] else "path:no-empty-segment"))
    else:
        ctx.mon("response.model")
        if not isinstance(got, c2.HttpResponse):
            ctx.violation("response.model", f"parsed as {type(got).__name__}", case)
            return
        diffs = []
        if got.status != m["status"] or isinstance(got.status, bool):
            diffs.append(f"status {got.status!r} != {m['status']}")
        if bytes(got.reason) != m["reason"]:
            diffs.append(f"reason {got.reason!r} != {m['reason']!r}")
        if dict(got.headers) != headers:
            diffs.append(f"headers {got.headers!r} != {headers!r}")
        if bytes(got.body) != m["body"]:
            diffs.append("body differs")
        if diffs:
            ctx.violation("response.model", "; ".join(diffs)[:900], case)
            return
        ctx.ok(fp=wire, case=case, classes=(f"status:{m['status'] // 100}xx", f"headers:{min(len(m['headers']), 3)}"))


# ---- generators --------------------------------------------------------------------------------------
def gen_headers(rng):
    n = rng.choice([0, 0, 1, 2, 3, 6])
    out = []
    names = [b"Host", b"User-Agent", b"Cookie", b"Accept", b"X-" + bytes(rng.choice(TOKEN) for _ in range(rng.randrange(1, 8))), b"Content-Type"]
    if rng.random() < 0.3:
        # a Content-Length header is just a header: it never decides how much of the body is returned
        out.append((rng.choice([b"Content-Length", b"content-length"]), rng.choice([b"0", b"1", b"10", b"48", b"99999", b"abc", b"", b"-1"])))
    for _ in range(n):
        k = rng.choice(names)
        if rng.random() < 0.1:
            # a key is whatever stands in front of the first ": " - also when it begins with a blank or a tab (no line folding),
            # holds a colon, or is empty
            k = rng.choice([b" X-Pad", b"\tX-Tab", b"  ", b"A:B", b":authority", b"", b" "])
        elif rng.random() < 0.25:
            # header names are kept byte for byte: "Cookie", "COOKIE" and "cookie" are three different keys
            k = rng.choice([k.upper(), k.lower(), k.swapcase()])
        r = rng.random()
        if r < 0.15:
            v = b""
        elif r < 0.3:
            v = b"a: b: c"
        elif r < 0.5:
            v = bytes(rng.choice([x for x in range(256) if x not in (10, 13)]) for _ in range(rng.randrange(1, 30)))
        else:
            v = bytes(rng.randrange(32, 127) for _ in range(rng.randrange(1, 60)))
        out.append((k, v))
    return out


def gen_body(rng):
    r = rng.random()
    if r < 0.25:
        return b""
    if r < 0.45:
        return rng.randbytes(rng.randrange(1, 200))
    if r < 0.65:
        return rng.randbytes(rng.randrange(0, 20)) + b"\r\n\r\n" + rng.randbytes(rng.randrange(0, 20)) + b"\r\n"
    if r < 0.8:
        return b"\r\n\r\n" + b"\0" * rng.randrange(1, 9)
    return b"GET /x HTTP/1.1\r\nHost: y\r\n\r\n" + rng.randbytes(rng.randrange(0, 2000))


def gen_request(rng):
    method = rng.choice([b"GET", b"POST", b"PUT", b"HEAD", b"QUERY", bytes(rng.choice(TOKEN) for _ in range(rng.randrange(1, 9)))])
    if method.upper().startswith(b"HTTP"):
        method = b"X" + method
    segs = []
    for _ in range(rng.randrange(0, 5)):
        seg = bytearray()
        for _ in range(rng.randrange(1, 10)):
            r = rng.random()
            if r < 0.8:
                seg.append(rng.choice(UNRESERVED))
            elif r < 0.93:
                seg.append(rng.choice(PATH_LIT))
            else:
                seg += pct(rng.randrange(256), rng)
        segs.append(bytes(seg))
    path = b"/" + b"/".join(segs)
    if rng.random() < 0.1:
        # any other byte that the request line's own delimiters (SP HT LF VT FF CR) and the query delimiter do not claim:
        # control characters such as 1c..1f, '#', DEL, and bytes >= 0x80 (kept byte for byte)
        odd = [b for b in range(1, 256) if b not in (0x09, 0x0A, 0x0B, 0x0C, 0x0D, 0x20, 0x3F)]
        pos = rng.randrange(1, len(path) + 1)
        path = path[:pos] + bytes(rng.choice(odd) for _ in range(rng.randrange(1, 4))) + path[pos:]
    if rng.random() < 0.1:
        # an absolute URI embedded in an origin-form path (redirectors, proxies), next to '#' and an empty first segment
        path = path.rstrip(b"/") + rng.choice([b"/http://example.com/a", b"/redirect/https://e.org/x#top", b"/p/ftp://h/f#a#b", b"/u=a+b://c"])
    r = rng.random()
    if r < 0.08:
        path = b"/" + path  # an empty first segment: "//api/v1" is a valid origin-form path, not a network location
    elif r < 0.12 and segs:
        path = path + b"//" + segs[0]
    elif r < 0.15:
        path = path + b"/"
    params = []
    for _ in range(rng.choice([0, 0, 1, 2, 3, 5])):
        klen = rng.choice([1, 2, 5, 12])
        vlen = rng.choice([1, 2, 8, 40])
        mode = rng.random()
        if mode < 0.5:
            k = bytes(rng.choice(UNRESERVED) for _ in range(klen))
            v = bytes(rng.randrange(32, 127) for _ in range(vlen))
        elif mode < 0.8:
            k = bytes(rng.randrange(32, 127) for _ in range(klen))
            v = rng.randbytes(vlen)
        else:
            k = rng.randbytes(klen)
            v = rng.randbytes(vlen)
        params.append((k, v))
    return {"method": method, "path": path, "params": params, "headers": gen_headers(rng), "body": gen_body(rng),
            "version": rng.choice([b"HTTP/1.1", b"HTTP/1.0", b"HTTP/2"])}


def gen_response(rng):
    # (204 / 304 / 1xx responses are "bodiless" for an HTTP client; this parser hands back whatever follows the blank line)
    status = rng.choice([200, 404, 100, 999, 302, 500, 204, 304, 101, 205, rng.randrange(100, 1000)])
    reason = rng.choice([b"OK", b"Found", b"NotFound", bytes(rng.choice(TOKEN) for _ in range(rng.randrange(1, 12)))])
    return {"version": rng.choice([b"HTTP/1.1", b"HTTP/1.0", b"http/1.1", b"HTTP/2"]), "status": status, "reason": reason,
            "headers": gen_headers(rng), "body": gen_body(rng)}


def gen_malformed(rng):
    what = rng.choice(["empty", "ws", "1part", "2parts", "4parts", "status-2parts", "status-4parts", "status-nonnum", "status-nonascii", "empty-then-valid"])
    tail = b"\r\nHost: x\r\n\r\nbody" if rng.random() < 0.7 else rng.choice([b"", b"\r\n\r\n"])
    if what == "empty-then-valid":
        # the FIRST line decides: an empty first line followed by a perfectly good start line is still malformed
        line = b""
        tail = b"\r\n" + rng.choice([b"GET /ptj HTTP/1.1", b"HTTP/1.1 200 OK", b"POST /submit.php?id=1 HTTP/1.1"]) + b"\r\nHost: a\r\n\r\n" + rng.choice([b"", b"body"])
    elif what == "empty":
        line = b""
    elif what == "ws":
        line = rng.choice([b" ", b"   ", b"\t", b" \t "])
    elif what == "1part":
        line = rng.choice([b"GET", b"/index.html", b"garbage"])
    elif what == "2parts":
        line = rng.choice([b"GET /", b"GET  /x", b"POST /submit.php "])
    elif what == "4parts":
        line = rng.choice([b"GET / HTTP/1.1 extra", b"GET /a b HTTP/1.1", b"A B C D E"])
    elif what == "status-2parts":
        line = rng.choice([b"HTTP/1.1 200", b"HTTP/1.1", b"HTTP/1.1  200 "])
    elif what == "status-4parts":
        line = b"HTTP/1.1 404 Not Found"
    elif what == "status-nonnum":
        line = b"HTTP/1.1 " + rng.choice([b"abc", b"2x0", b"0x10", b"--", b"1.5", b""]) + b" OK"
        if line == b"HTTP/1.1  OK":
            what = "status-2parts"
    else:
        line = b"HTTP/1.1 2\xff0 OK"
    return {"op": "malformed", "wire": line + tail, "what": what}


def plan(tier, seed):
    q = tier == "quick"
    shards = [{"kind": "mix", "n": 2500 if q else 120000, "budget_s": 50 if q else 1500, "timeout_s": 300 if q else 3600} for _ in range(16)]
    return shards


def run_shard(shard, ctx):
    rng = ctx.rng
    for i in range(shard["n"]):
        if ctx.out_of_time():
            break
        r = rng.random()
        if r < 0.6:
            m = gen_request(rng)
            check_case({"op": "request", "model": m, "wire": serialize_request(m, rng), "reparse_after_edit": rng.random() < 0.3}, ctx)
        elif r < 0.85:
            m = gen_response(rng)
            check_case({"op": "response", "model": m, "wire": serialize_response(m)}, ctx)
        else:
            check_case(gen_malformed(rng), ctx)


LEVEL_TEXT = (
    "Exploration against a reference serializer: tens of thousands (thorough: ~2 million) of request and response "
    "models - every byte value in parameter keys/values with random literal/percent/plus encodings, duplicate and empty "
    "headers, zero headers, bodies containing CRLFCRLF and NULs - are serialised to wire bytes and the object returned "
    "by parse_raw_http is compared part by part with the model; nine classes of malformed start lines are checked to "
    "raise ValueError and nothing else."
)
LEVEL_NOTE = "Held on the generated messages; the reference serializer (RFC 3986/7230 subset named in the rule) is the trusted base."
TECHNIQUE = "reference-model runtime monitor (independent serializer, parsed result compared with the model) + exception-type monitor"
