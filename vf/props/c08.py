"""C08 - untrusted input never crashes or hangs the parsers.

Fault enumeration: truncation / field-aimed corruption / splices of valid payloads of every layout, run
through every entry point under three monitors: exception classifier (only ValueError may escape),
result-type contract per entry point, per-activation loop budget (sys.monitoring); a wall-clock alarm
per call is inconclusive, never a violation."""

from __future__ import annotations

import io
import os
import signal
import struct
import sys
import tempfile
import zipfile

from vf import contracts, core, steps
from vf.ref import payload as P
from vf.ref import tlv

ID = "C08"
LEVEL = "fault_enumeration"
RULE = (
    "seeds: synthetic payloads of the four layouts (raw block in filler, PE-embedded, XorEncoded PE, Guardrails-protected) "
    "with known field offsets, the real sample beacons shipped with the test-suite (whole and cropped around their "
    "structures), valid HTTP messages, ArtifactKit files. Faults: truncation at every structure boundary +-2 and at "
    "random points; values {0,1,max,max-1,0x7f..,0x80..,random} written into named fields (e_lfanew, Machine, "
    "NumberOfSections, SizeOfOptionalHeader, export RVA/size, section VA/VSize/raw pointer/raw size, setting index/type/"
    "length, the 0x80 User-Agent, XorEncode nonce/size dword/end-of-stub marker, guard marker bytes, guard setting lengths, "
    "checksum); random byte/bit flips; splices of two seeds; pure random / zero / repetitive inputs; crafted minimal cases "
    "(guard marker at offsets 0..12, ArtifactKit self-reference with huge size). Each (mutated input, entry point, key mode) "
    "is one evaluation; all are non-trivial. Distinct = distinct (input bytes, entry point, key mode)."
)
ASSUMPTIONS = [
    "subclasses of ValueError count as the documented ValueError (callers use 'except ValueError')",
    "bounded progress: one function activation may iterate at most 8*len(input)+100000 times; total work is not bounded by the property",
    "inputs with more than four ff ff ff in the first 1027 bytes are not generated in quick (known quadratic cost in XorEncoded detection, terminates)",
    "lazy views of a returned configuration (.settings of a corrupted block) are not entry points of this property",
]
REQUIRED_MONITORS = ["exception.class", "result.type", "bounded.progress"]

SAMPLES = {
    "x86": "4f571c0bc97c20eefc58fa3faf32148d.bin.zip",
    "x64": "1897a6cdf17271807bd6ec7c60fffea3.bin.zip",
    "custom": "3fdf92571d10485b05904e35c635c655.bin.zip",
    "dns": "a1573fe60c863ed40fffe54d377b393a.bin.zip",
    "c2test": "37882262c9b5e971067fd989b26afe28.bin.zip",
    "puny": "5a197a8bb628a2555f5a86c51b85abd7.bin.zip",
    "guard": "124552cf674b362e0c916ab79b9e7a56.bin.zip",
}
ENTRY_POINTS = ["from_bytes", "from_file", "from_path", "iter_blocks", "xordecode", "find_mz_offset", "find_architecture", "find_compile_stamps",
                "find_magic_mz", "find_magic_pe", "find_stage_prepend_append", "artifactkit", "parse_raw_http"]


class WallClock(BaseException):
    pass


def _alarm(signum, frame):
    raise WallClock()


class CpuClock(BaseException):
    pass


def _cpu_alarm(signum, frame):
    raise CpuClock()


# CPU seconds (ITIMER_VIRTUAL: this process's own user time, independent of machine load) that parsing one raw HTTP
# message of a few KB may consume; the real parser needs well under a millisecond.  Loops inside the regular-expression
# engine execute no Python back-edge, so the sys.monitoring budget cannot see them.
HTTP_CPU_SECONDS = 20
_cpu_tripped = []


def load_sample(name):
    path = os.path.join(core.REPO, "tests", "beacons", SAMPLES[name])
    if not os.path.exists(path):
        return None
    with zipfile.ZipFile(path) as zf:
        return zf.read(os.path.basename(path)[:-4], pwd=b"dissect.cobaltstrike")


# ---- the call under the three monitors ---------------------------------------------------------------------
def call_entry(ep, data, mode, ctx):
    """Returns None (fine) or (monitor, message)."""
    from dissect.cobaltstrike import artifact, beacon, c2, pe, xordecode

    keys, allk = None, False
    if mode == "caller":
        keys = [b"\xcc", b"\x69"]
    elif mode == "all":
        allk = True
    tmp = None
    old = signal.signal(signal.SIGALRM, _alarm)
    signal.alarm(120)
    old_cpu = None
    cpu_limit = HTTP_CPU_SECONDS
    if ep == "parse_raw_http":
        old_cpu = signal.signal(signal.SIGVTALRM, _cpu_alarm)
        # (once the limit has been exceeded in this process - a violation already - the remaining cases get a tenth of it, so
        # that a broken tree is reported within the shard's own time limit)
        cpu_limit = HTTP_CPU_SECONDS / 10 if _cpu_tripped else HTTP_CPU_SECONDS
        signal.setitimer(signal.ITIMER_VIRTUAL, cpu_limit)
    try:
        with steps.budget(len(data)) as b:
            if ep == "from_bytes":
                res = beacon.BeaconConfig.from_bytes(data, xor_keys=keys, all_xor_keys=allk)
            elif ep == "from_file":
                res = beacon.BeaconConfig.from_file(io.BytesIO(data), xor_keys=keys, all_xor_keys=allk)
            elif ep == "from_path":
                fd, tmp = tempfile.mkstemp(prefix="vf_c08_")
                os.write(fd, data)
                os.close(fd)
                res = beacon.BeaconConfig.from_path(tmp, xor_keys=keys, all_xor_keys=allk)
            elif ep == "iter_blocks":
                # the documented extraction generator, fully consumed, with every combination of its keyword arguments
                res = []
                for xd in (True, False):
                    for ak in (False, True):
                        res.append(sum(1 for _ in beacon.iter_beacon_config_blocks(io.BytesIO(data), xor_keys=keys, xordecode=xd, all_xor_keys=ak)))
            elif ep == "xordecode":
                res = xordecode.XorEncodedFile.from_file(io.BytesIO(data))
            elif ep == "artifactkit":
                res = list(artifact.iter_artifactkit_payloads(io.BytesIO(data)))
            elif ep == "parse_raw_http":
                res = c2.parse_raw_http(data)
            elif ep.endswith(":none"):
                # the documented "from the current file position" form of the helpers (start_offset=None)
                fh0 = io.BytesIO(data)
                name = ep[: -len(":none")]
                res = list(artifact.iter_artifactkit_payloads(fh0, start_offset=None)) if name == "artifactkit" else getattr(pe, name)(fh0, start_offset=None)
            elif ep.endswith(":mmap"):
                # a memory-mapped file refuses to seek beyond its end (ValueError) where other files just read nothing
                import mmap

                name = ep[: -len(":mmap")]
                if not data:
                    res = getattr(pe, name)(io.BytesIO(data)) if name != "from_file" else None
                else:
                    mm = mmap.mmap(-1, len(data))
                    mm.write(data)
                    mm.seek(0)
                    try:
                        res = beacon.BeaconConfig.from_file(mm) if name == "from_file" else getattr(pe, name)(mm)
                    finally:
                        try:
                            mm.close()
                        except BufferError:
                            pass
            elif ep.endswith(":file"):
                # the same helpers on a regular file (positions beyond what the file system supports, allocation of the
                # requested read size): a 2 GiB address-space limit makes an attempt to allocate a claimed 4 GiB visible
                import resource

                fd, tmp = tempfile.mkstemp(prefix="vf_c08_")
                os.write(fd, data)
                os.close(fd)
                soft, hard = resource.getrlimit(resource.RLIMIT_AS)
                resource.setrlimit(resource.RLIMIT_AS, (2 << 30, hard))
                try:
                    with open(tmp, "rb") as fh:
                        name = ep[: -len(":file")]
                        res = list(artifact.iter_artifactkit_payloads(fh)) if name == "artifactkit" else getattr(pe, name)(fh)
                finally:
                    resource.setrlimit(resource.RLIMIT_AS, (soft, hard))
            else:
                res = getattr(pe, ep)(io.BytesIO(data))
        ctx.maximum("back_edges_per_byte_in_one_activation", round(b.maxact / max(1, len(data)), 3))
    except ValueError:
        if ep in ("from_bytes", "from_file", "from_path", "xordecode", "parse_raw_http"):
            return None
        if ep == "from_file:mmap" and "No valid Beacon configuration found" in str(sys.exc_info()[1]):
            return None
        if ep == "iter_blocks":
            return "exception.class", "iter_beacon_config_blocks raised ValueError; it documents yielding zero or more blocks"
        return "exception.class", f"{ep} raised ValueError but documents a 'not found' value, not an exception"
    except steps.Overrun as e:
        return "bounded.progress", f"{ep}: unbounded looping: {e}"
    except CpuClock:
        _cpu_tripped.append(1)
        return "bounded.progress", f"{ep}: more than {cpu_limit:g} s of CPU time on a message of {len(data)} bytes (no Python loop involved: regular-expression backtracking)"
    except WallClock:
        ctx.inconclusive.append(f"{ep} exceeded 120 s wall clock on an input of {len(data)} bytes (not a verdict)")
        return None
    except RecursionError as e:
        return "bounded.progress", f"{ep}: RecursionError: {e}"
    except Exception as e:  # noqa: BLE001
        return "exception.class", f"{ep} raised {type(e).__name__}: {str(e)[:200]}"
    finally:
        if old_cpu is not None:
            signal.setitimer(signal.ITIMER_VIRTUAL, 0)
            signal.signal(signal.SIGVTALRM, old_cpu)
        signal.alarm(0)
        signal.signal(signal.SIGALRM, old)
        if tmp:
            os.unlink(tmp)
    # result-type contract
    ok = True
    if ep.endswith(":file"):
        ep = ep[: -len(":file")]
    if ep.endswith(":none"):
        ep = ep[: -len(":none")]
    if ep.endswith(":mmap"):
        ep = ep[: -len(":mmap")]
        if ep == "from_file" and res is None:
            return None
    if ep in ("from_bytes", "from_file", "from_path"):
        ok = isinstance(res, beacon.BeaconConfig) and isinstance(res.config_block, bytes) and isinstance(res.settings_tuple, tuple)
    elif ep == "xordecode":
        ok = isinstance(res, xordecode.XorEncodedFile)
    elif ep == "find_mz_offset":
        ok = res is None or (isinstance(res, int) and 0 <= res < 1024)
    elif ep == "find_architecture":
        ok = res in (None, "x86", "x64")
    elif ep == "find_compile_stamps":
        ok = isinstance(res, tuple) and len(res) == 2 and all(x is None or isinstance(x, int) for x in res)
    elif ep in ("find_magic_mz", "find_magic_pe"):
        ok = res is None or isinstance(res, bytes)
    elif ep == "find_stage_prepend_append":
        ok = isinstance(res, tuple) and len(res) == 2 and all(x is None or isinstance(x, bytes) for x in res)
    elif ep == "iter_blocks":
        ok = all(isinstance(n, int) for n in res)
    elif ep == "artifactkit":
        ok = all(isinstance(x, artifact.ArtifactKitPayload) and x.offset >= 0 for x in res)
    elif ep == "parse_raw_http":
        ok = isinstance(res, (c2.HttpRequest, c2.HttpResponse))
    if not ok:
        return "result.type", f"{ep} returned {core.short(repr(res), 200)}, not its documented result"
    return None


def check_case(case, ctx):
    steps.install()
    contracts.install_xordecode()
    contracts.take()
    data = case["data"]
    for ep, mode in case["calls"]:
        ctx.mon("exception.class")
        ctx.mon("result.type")
        ctx.mon("bounded.progress")
        r = call_entry(ep, data, mode, ctx)
        br = contracts.take()
        if r is None and br:
            r = br[0]
        if r:
            ctx.violation(r[0], f"[{case.get('seed_kind')}/{case.get('fault')}] {r[1]} (input {len(data)} bytes)", {**case, "calls": [[ep, mode]]})
            continue
        ctx.ok(fp=(data, ep, mode), classes=(f"ep:{ep}", f"seed:{case.get('seed_kind')}", f"fault:{case.get('fault', '').split(':')[0]}", f"keys:{mode}"),
               case={"seed_kind": case.get("seed_kind"), "fault": case.get("fault"), "entry_point": ep, "keys": mode, "input_len": len(data), "input_head": data[:48]})


# ---- seeds with named fields ---------------------------------------------------------------------------------
def mk_config(rng):
    """-> (block 4096 bytes plain, fields[(name, offset, width)])"""
    recs = [(1, 1, struct.pack(">H", rng.choice([0, 1, 8]))), (2, 1, b"\x01\xbb"), (3, 2, struct.pack(">I", 60000)), (5, 1, b"\x00\x0a")]
    recs.append((7, 3, rng.randbytes(162).ljust(256, b"\0")))
    recs.append((8, 3, b"example.com,/api/v1,cdn.example.org,/x".ljust(256, b"\0")))
    ua = bytes(rng.randrange(32, 127) for _ in range(rng.choice([40, 127, 128])))
    recs.append((9, 3, ua.ljust(128, b"\0")))
    recs.append((10, 3, b"/submit.php".ljust(64, b"\0")))
    recs.append((11, 3, b"\0\0\0\4\0\0\0\1\0\0\0\x10\0\0\0\3\0\0\0\0".ljust(256, b"\0")))
    recs.append((12, 3, (b"\0\0\0\x0a\0\0\0\x10Accept: */*\0\0\0\0\0" + b"\0\0\0\7\0\0\0\0\0\0\0\3\0\0\0\6\0\0\0\6Cookie\0\0\0\0").ljust(256, b"\0")))
    recs.append((13, 3, b"\0\0\0\7\0\0\0\0\0\0\0\5\0\0\0\2id\0\0\0\7\0\0\0\1\0\0\0\4\0\0\0\0".ljust(256, b"\0")))
    recs += [(26, 3, b"GET".ljust(16, b"\0")), (27, 3, b"POST".ljust(16, b"\0")), (37, 2, struct.pack(">I", 305419896)), (40, 2, struct.pack(">I", 20301231))]
    recs.append((51, 3, b"\x06\x00\x10\0\0\0\6ntdll\0\0\0\0\x0cRtlUserThrea\x01\x04\x00".ljust(128, b"\0")))
    recs.append((78, 3, bytes(rng.choice([0, 1]) for _ in range(23))))
    out = bytearray()
    fields = []
    for idx, typ, val in recs:
        o = len(out)
        fields += [(f"setting{idx}.index", o, 2), (f"setting{idx}.type", o + 2, 2), (f"setting{idx}.length", o + 4, 2)]
        if idx == 9:
            fields.append(("useragent.lastbyte", o + 6 + 127, 1))
        out += tlv.S(idx, typ, val)
    fields.append(("terminator", len(out), 2))
    return bytes(out).ljust(4096, b"\0"), fields


def seed_raw(rng):
    blk, f = mk_config(rng)
    key = rng.choice([0x69, 0x2E, 0x00])
    pre = P.filler(rng, rng.choice([0, 7, 100, 1500]))
    data = pre + P.rx1(blk, key) + P.filler(rng, rng.choice([0, 50, 900]))
    fields = [(n, o + len(pre), w) for n, o, w in f]
    return {"kind": "raw", "data": data, "fields": fields, "boundaries": [len(pre), len(pre) + 7, len(pre) + 4096] + [o + len(pre) for _, o, _ in f], "xorkey": key}


def pe_fields(info, base, arch, nsec):
    lf = info["lfanew"]
    opt = base + lf + 24
    dd = opt + (96 if arch == "x86" else 112)
    f = [("e_lfanew", base + 0x3C, 4), ("e_magic", base, 2), ("pe.signature", base + lf, 4), ("Machine", base + lf + 4, 2),
         ("NumberOfSections", base + lf + 6, 2), ("TimeDateStamp", base + lf + 8, 4), ("SizeOfOptionalHeader", base + lf + 20, 2),
         ("SizeOfHeaders", opt + 60, 4), ("NumberOfRvaAndSizes", dd - 4, 4), ("export.rva", dd, 4), ("export.size", dd + 4, 4)]
    sec0 = opt + (224 if arch == "x86" else 240)
    for i in range(nsec):
        s = sec0 + 40 * i
        f += [(f"sec{i}.VirtualSize", s + 8, 4), (f"sec{i}.VirtualAddress", s + 12, 4), (f"sec{i}.SizeOfRawData", s + 16, 4), (f"sec{i}.PointerToRawData", s + 20, 4)]
    bounds = [base, base + 64, base + lf, base + lf + 4, base + lf + 24, opt + (224 if arch == "x86" else 240), sec0 + 40 * nsec, base + info["size"]]
    bounds += [base + s["raw"] for s in info["sections"]]
    return f, bounds


def seed_pe(rng, xorenc=False):
    blk, cf = mk_config(rng)
    key = rng.choice([0x69, 0x2E])
    arch = rng.choice(["x86", "x64"])
    nsec = rng.randrange(1, 5)
    pad = P.filler(rng, rng.choice([0, 33]))
    img, info = P.build_pe(rng, arch=arch, lfanew=rng.choice([64, 0x80, 0x100]), nsec=nsec, export_section=rng.choice([None, 0, nsec - 1]),
                           data=pad + P.rx1(blk, key))
    prepend = P.filler(rng, rng.choice([0, 0, 9, 300]))
    stage = prepend + img + rng.choice([b"", b"APPENDED"])
    f, bounds = pe_fields(info, len(prepend), arch, nsec)
    cbase = len(prepend) + info["data_offset"] + len(pad)
    f += [(n, o + cbase, w) for n, o, w in cf]
    bounds += [cbase, cbase + 4096]
    return {"kind": "pe", "data": stage, "fields": f, "boundaries": bounds, "xorkey": key}


def encode_stage(rng, inner):
    stub = P.filler(rng, rng.choice([0, 57, 400]))
    nonce = rng.randbytes(4)
    enc, off = P.xorencode(inner, nonce, stub=stub, marker=True)
    f = [("eof_marker", off - 3, 3), ("nonce", off, 4), ("encsize", off + 4, 4), ("first_encoded_dword", off + 8, 4)]
    return {"kind": "xorpe", "data": enc, "fields": f, "boundaries": [off - 3, off, off + 4, off + 8, off + 8 + 64, len(enc)]}


def seed_guard(rng, plain_mut=None, **kw):
    blk, cf = mk_config(rng)
    cfg = blk.rstrip(b"\0")
    envkey = bytes(rng.randrange(1, 256) for _ in range(rng.choice([2, 5, 11, 16])))
    opts = rng.choice([[(6, 1, b"\0\1")], [(5, 1, b"\0\1"), (7, 1, b"\0\1")], [(8, 2, b"\x0a\0\0\1")], [(5, 1, b"\0\1"), (6, 1, b"\0\1"), (7, 1, b"\0\1"), (8, 2, b"\x0a\0\0\1")]])
    gb, ginfo = P.guard_block(rng, cfg, envkey, opts, guard_plain_mutator=plain_mut, **kw)
    pre = P.filler(rng, rng.choice([0, 5, 300, 2000]))
    data = pre + gb + P.filler(rng, rng.choice([0, 100]))
    g0 = len(pre) + 6144
    f = [("guard.marker", g0 - 6, 6), ("guard.first6", g0, 6), ("masked_cfg.first", len(pre), 4), ("masked_cfg.mid", len(pre) + 3000, 4)]
    return {"kind": "guard", "data": data, "fields": f, "boundaries": [len(pre), g0 - 6, g0, g0 + 6, g0 + 2048, len(data)], "ginfo": ginfo}


def seed_http(rng):
    from vf.props import c16

    if rng.random() < 0.6:
        m = c16.gen_request(rng)
        wire = c16.serialize_request(m, rng)
    else:
        m = c16.gen_response(rng)
        wire = c16.serialize_response(m)
    eol = wire.find(b"\r\n")
    return {"kind": "http", "data": wire, "fields": [("startline", 0, max(eol, 1))], "boundaries": [eol, eol + 2, wire.find(b"\r\n\r\n"), wire.find(b"\r\n\r\n") + 4, len(wire)]}


def seed_artifact(rng):
    n = rng.randrange(40, 600)
    data = bytearray(P.filler(rng, n))
    fields = []
    for _ in range(rng.randrange(1, 4)):
        p = rng.randrange(0, n - 20)
        data[p : p + 20] = struct.pack("<II", p + 16, rng.choice([0, 8, n, 2**31, 2**32 - 1])) + rng.randbytes(12)
        fields += [("ak.offset", p, 4), ("ak.size", p + 4, 4)]
    return {"kind": "artifact", "data": bytes(data), "fields": fields, "boundaries": [o for _, o, _ in fields]}


# ---- faults ------------------------------------------------------------------------------------------------------
def field_values(rng, width):
    mx = (1 << (8 * width)) - 1
    vals = [0, 1, mx, mx - 1, mx >> 1, (mx >> 1) + 1, rng.randrange(0, mx + 1), rng.randrange(0, 1 << min(8 * width, 12))]
    return vals


def apply_fault(rng, seed, other=None):
    """-> (mutated bytes, fault label)"""
    data = seed["data"]
    r = rng.random()
    if r < 0.25 and seed["boundaries"]:
        b = rng.choice([x for x in seed["boundaries"] if x is not None and x >= 0] or [0])
        cut = max(0, min(len(data), b + rng.randrange(-2, 3)))
        return data[:cut], f"truncate:boundary@{cut}"
    if r < 0.32:
        cut = rng.randrange(0, len(data) + 1)
        return data[:cut], f"truncate:random@{cut}"
    if r < 0.72 and seed["fields"]:
        out = bytearray(data)
        label = []
        for _ in range(rng.choice([1, 1, 1, 2, 3])):
            name, off, width = rng.choice(seed["fields"])
            if off < 0 or off + width > len(out):
                continue
            if width in (1, 2, 4, 8):
                v = rng.choice(field_values(rng, width))
                order = "big" if name.startswith(("setting", "terminator", "useragent")) else "little"
                raw = v.to_bytes(width, order)
                if seed.get("xorkey") and name.startswith(("setting", "terminator", "useragent")):
                    raw = P.rx1(raw, seed["xorkey"])
            else:
                raw = rng.randbytes(width)
            out[off : off + width] = raw
            label.append(name)
        return bytes(out), "field:" + "+".join(label)
    if r < 0.85:
        out = bytearray(data)
        for _ in range(rng.choice([1, 2, 8, 64])):
            if not out:
                break
            i = rng.randrange(len(out))
            if rng.random() < 0.5:
                out[i] ^= 1 << rng.randrange(8)
            else:
                out[i] = rng.randrange(256)
        return bytes(out), "flip:random"
    if r < 0.93 and other is not None:
        a, b = rng.randrange(0, len(data) + 1), rng.randrange(0, len(other["data"]) + 1)
        return data[:a] + other["data"][b:], f"splice:{seed['kind']}+{other['kind']}"
    return data, "none:valid"


def tame(data):
    """keep the known quadratic cost of XorEncoded detection out of quick shards"""
    head = data[:1027]
    if head.count(b"\xff\xff\xff") <= 4:
        return data
    h = bytearray(head)
    seen = 0
    i = h.find(b"\xff\xff\xff")
    while i != -1:
        seen += 1
        if seen > 4:
            h[i + 1] = 0x7F
        i = h.find(b"\xff\xff\xff", i + 1)
    return bytes(h) + data[1027:]


def calls_for(rng, kind, data, tier):
    eps = []
    if kind in ("http",):
        return [("parse_raw_http", "default")]
    if kind == "artifact":
        return [("artifactkit", "default")]
    mode = rng.choice(["default", "default", "caller", "all"]) if len(data) < 20000 and kind not in ("xorpe", "sample") else rng.choice(["default", "caller"])
    eps.append((rng.choice(["from_bytes", "from_bytes", "from_file", "from_path"]), mode))
    if kind in ("pe", "xorpe", "sample", "junk", "raw", "guard"):
        for ep in rng.sample(["find_mz_offset", "find_architecture", "find_compile_stamps", "find_magic_mz", "find_magic_pe", "find_stage_prepend_append"], 2):
            eps.append((ep, "default"))
    if rng.random() < 0.4:
        eps.append(("xordecode", "default"))
    if len(data) < 6000 and kind != "xorpe" and rng.random() < 0.15:
        eps.append(("iter_blocks", rng.choice(["default", "caller"])))
    if rng.random() < 0.1:
        eps.append(("artifactkit", "default") if len(data) < 30000 else ("parse_raw_http", "default"))
    if rng.random() < 0.1:
        eps.append(("parse_raw_http", "default"))
    return eps


def plan(tier, seed):
    q = tier == "quick"
    shards = []
    for i in range(11):
        shards.append({"kind": "synthetic", "n": 60 if q else 5000})
    shards.append({"kind": "crafted"})
    shards.append({"kind": "crafted", "part": 1})
    shards.append({"kind": "junk", "n": 60 if q else 4000})
    shards.append({"kind": "http", "n": 1500 if q else 100000})
    for name in SAMPLES:
        shards.append({"kind": "sample", "name": name, "n": 5 if q else 250})
    for s in shards:
        s["budget_s"] = 55 if q else 3000
        s["timeout_s"] = 400 if q else 7200
    return shards


def run_shard(shard, ctx):
    rng = ctx.rng
    kind = shard["kind"]
    tier = shard["tier"]
    if kind == "synthetic":
        for _ in range(shard["n"]):
            if ctx.out_of_time():
                break
            which = rng.choice(["raw", "pe", "xorpe-inner", "xorpe-outer", "guard", "guard-plain", "artifact"])
            other = seed_raw(rng) if rng.random() < 0.5 else seed_pe(rng)
            if which == "raw":
                s = seed_raw(rng)
                data, fault = apply_fault(rng, s, other)
            elif which == "pe":
                s = seed_pe(rng)
                data, fault = apply_fault(rng, s, other)
            elif which == "xorpe-inner":
                inner = seed_pe(rng)
                mutated, fault = apply_fault(rng, inner, other)
                s = encode_stage(rng, mutated)
                data, fault = s["data"], "inner-" + fault
            elif which == "xorpe-outer":
                s = encode_stage(rng, seed_pe(rng)["data"])
                data, fault = apply_fault(rng, s, other)
            elif which == "guard":
                s = seed_guard(rng, stored_checksum=rng.choice([None, None, 0, 1, 2**32 - 1]), rnd_pad=rng.random() < 0.3,
                               guard_truncate=rng.choice([None, None, 0, 5, 6, 7, 100, 2047]))
                data, fault = apply_fault(rng, s, other)
                if rng.random() < 0.3:
                    data = encode_stage(rng, data)["data"]
                    fault = "xorencoded-" + fault
            elif which == "guard-plain":
                def mut(g, rng=rng):
                    g = bytearray(g)
                    pos = rng.choice([4, 4, 10, 12, 16, 22])
                    g[pos : pos + 2] = rng.choice([b"\xff\xff", b"\x08\x00", b"\x07\xff", b"\x00\x00", b"\x7f\xff"])
                    if rng.random() < 0.3:
                        t = g.find(b"\0\0", 6)
                        g[t : t + 2] = b"\x00\x05"
                    if rng.random() < 0.3:
                        g = g[: rng.randrange(6, 40)] + bytes([rng.randrange(1, 256)]) * 2048
                    return bytes(g)

                s = seed_guard(rng, plain_mut=mut)
                data, fault = s["data"], "guard-plaintext-lengths"
            else:
                s = seed_artifact(rng)
                data, fault = apply_fault(rng, s, None)
            data = tame(data)
            k = s["kind"] if which != "artifact" else "artifact"
            check_case({"data": data, "seed_kind": which, "fault": fault, "calls": calls_for(rng, k, data, tier)}, ctx)
    elif kind == "crafted":
        marks = [P.rx1(x, 0x8A) for x in (b"\x00\x05\x00\x01\x00\x02", b"\x00\x06\x00\x01\x00\x02", b"\x00\x07\x00\x01\x00\x02", b"\x00\x08\x00\x02\x00\x04")]
        if shard.get("part") == 1:
            # the costly crafted groups, in a shard of their own
            # a whole, uniform or short-periodic 6144-byte area in front of the marker (one distinct n-gram per key length)
            for pat in (b"\0", b"\x2e", b"\xcc", b"\xcc\x90", b"abc", bytes(range(256)), b"\x8a"):
                for lead in (0, 5):
                    area = (pat * (6144 // len(pat) + 1))[:6144]
                    for m, tail in ((marks[0], b""), (marks[1], bytes(2048)))[lead > 0 :]:
                        # (each case costs a complete environmental-key search under the loop monitor: a second or so)
                        a = area[-6:]
                        pair = a + bytes(x ^ y for x, y in zip(a[::-1], m))
                        data = P.filler(rng, lead) + area[:-6] + pair + tail
                        for ep in ("from_bytes", "from_path")[: 2 if lead == 0 and not tail and len(pat) == 1 else 1]:
                            check_case({"data": data, "seed_kind": "crafted-guard-marker", "fault": f"uniform-area={pat[:4]!r},lead={lead}", "calls": [(ep, "default")]}, ctx)
            # header fields that point beyond a memory mapping (a mapping refuses the seek, BytesIO does not)
            for arch in ("x86", "x64"):
                blk = P.rx1((tlv.short(1, 8) + tlv.short(2, 443)).ljust(30, b"\0"), 0x2E)
                img, info = P.build_pe(rng, arch=arch, nsec=2, export_section=0, data=blk)
                fields, _ = pe_fields(info, 0, arch, 2)
                for name, off, width in fields:
                    if width != 4 or name in ("pe.signature", "TimeDateStamp"):
                        continue
                    for val in (0x10000000, 0x7FFFFFFF, 0xFFFFFFFF, len(img), len(img) - 1):
                        d = bytearray(img)
                        struct.pack_into("<I", d, off, val)
                        for ep in ("find_compile_stamps:mmap", "find_stage_prepend_append:mmap", "find_magic_pe:mmap", "from_file:mmap"):
                            check_case({"data": bytes(d), "seed_kind": "crafted-mmap", "fault": f"mmap,{name}={val:#x}", "calls": [(ep, "default")]}, ctx)
            return
        for off in range(0, 13):
            for m in marks:
                a = P.filler(rng, 6)
                pair = a + bytes(x ^ y for x, y in zip(a[::-1], m))  # reverse(a) xor b == marker
                for tail in (b"", P.filler(rng, 10), P.filler(rng, 3000)):
                    data = P.filler(rng, off) + pair + tail
                    for ep in ("from_bytes", "from_path"):
                        check_case({"data": data, "seed_kind": "crafted-guard-marker", "fault": f"marker@{off}", "calls": [(ep, "default")]}, ctx)
        for size in (0, 1, 2**31 - 1, 2**31, 2**32 - 1):
            for off in (0, 1, 7):
                data = bytes(off) + struct.pack("<II", off + 16, size) + b"KEY!" + b"hintHINT" + b"payload"
                check_case({"data": data, "seed_kind": "crafted-artifactkit", "fault": f"size={size}", "calls": [("artifactkit", "default"), ("from_bytes", "default")]}, ctx)
                check_case({"data": data[: off + 9], "seed_kind": "crafted-artifactkit", "fault": "truncated-header", "calls": [("artifactkit", "default")]}, ctx)
                if size < 100:
                    # masks with zero bytes, the all-zero mask included (the payload is then stored as it is)
                    for mask in (b"\0\0\0\0", b"\0\0\0\1", b"K\0\0\0"):
                        d2 = bytes(off) + struct.pack("<II", off + 16, size) + mask + b"hintHINT" + b"payload" + bytes(off)
                        check_case({"data": d2, "seed_kind": "crafted-artifactkit", "fault": f"mask={mask.hex()},size={size}", "calls": [("artifactkit", "default"), ("artifactkit:file", "default")]}, ctx)
        # minimal PE shapes
        for arch in ("x86", "x64"):
            img, info = P.build_pe(rng, arch=arch, nsec=2)
            lf = info["lfanew"]
            for cut in (64, lf, lf + 4, lf + 6, lf + 24, lf + 24 + 96, lf + 24 + 224, lf + 24 + 240, lf + 24 + 240 + 40, lf + 24 + 240 + 79, len(img) - 1):
                for ep in ENTRY_POINTS[:10]:
                    check_case({"data": img[:cut], "seed_kind": "crafted-pe", "fault": f"truncate@{cut}", "calls": [(ep, "default")]}, ctx)
            for nsec in (0, 1, 96, 0xFFFF):
                d = bytearray(img)
                struct.pack_into("<H", d, lf + 6, nsec)
                for ep in ("find_compile_stamps", "find_stage_prepend_append", "from_bytes"):
                    check_case({"data": bytes(d), "seed_kind": "crafted-pe", "fault": f"NumberOfSections={nsec}", "calls": [(ep, "default")]}, ctx)
        # every helper in its "from the current position" form, on stages with and without prepended bytes
        for arch in ("x86", "x64"):
            img, info = P.build_pe(rng, arch=arch, nsec=2)
            for pre in (b"", b"\x90" * 7, P.filler(rng, 300)):
                for ep in ("find_mz_offset", "find_architecture", "find_compile_stamps", "find_magic_mz", "find_magic_pe", "find_stage_prepend_append", "artifactkit"):
                    check_case({"data": pre + img + b"tail", "seed_kind": "crafted-pe", "fault": f"none:start_offset=None,prepend={len(pre)}", "calls": [(ep + ":none", "default")]}, ctx)
        # small memory-mapped payloads: a block in fewer than 1024 bytes, helpers on short images
        for n in (30, 300, 600, 1000, 1044, 2100):
            blk = P.rx1((tlv.short(1, 8) + tlv.short(2, 443)).ljust(30, b"\0"), 0x2E)
            data = P.filler(rng, max(n - len(blk), 0)) + blk
            check_case({"data": data, "seed_kind": "crafted-mmap", "fault": f"mmap,{n} bytes", "calls": [("from_file:mmap", "default")]}, ctx)
        for arch in ("x86", "x64"):
            img, info = P.build_pe(rng, arch=arch, nsec=1)
            for cut in (70, 200, info["lfanew"] + 10, info["lfanew"] + 30, 900, 1500):
                for ep in ("find_mz_offset", "find_architecture", "find_compile_stamps", "find_magic_mz", "find_magic_pe", "find_stage_prepend_append"):
                    check_case({"data": img[:cut], "seed_kind": "crafted-mmap", "fault": f"mmap,truncate@{cut}", "calls": [(ep + ":mmap", "default")]}, ctx)
        # claimed sizes that only a regular file takes at face value
        for arch in ("x86", "x64"):
            img, info = P.build_pe(rng, arch=arch, nsec=2)
            d = bytearray(img[: info["lfanew"] + 24 + (224 if arch == "x86" else 240)]) + b"\xff" * 260000
            for nsec in (4095, 4096, 5000, 0xFFFF):
                struct.pack_into("<H", d, info["lfanew"] + 6, nsec)
                for ep in ("find_stage_prepend_append:file", "find_compile_stamps:file", "find_magic_mz:file"):
                    check_case({"data": bytes(d), "seed_kind": "crafted-pe", "fault": f"NumberOfSections={nsec},SizeOfRawData=ffffffff,regular file", "calls": [(ep, "default")]}, ctx)
        for size in (0xFFFFFFFF, 0x80000000, 0x7FFFFFFF):
            data = struct.pack("<II", 16, size) + b"KEY!" + b"hints..." + b"abc"
            check_case({"data": data, "seed_kind": "crafted-artifactkit", "fault": f"size={size:#x},regular file", "calls": [("artifactkit:file", "default")]}, ctx)
        # User-Agent never terminated, inside an extractable block
        blk = tlv.short(1, 8) + tlv.ptr(9, bytes(range(1, 129)))
        check_case({"data": P.rx1(blk, 0x2E), "seed_kind": "crafted-useragent", "fault": "ua-unterminated", "calls": [("from_bytes", "default"), ("from_path", "default")]}, ctx)
        for lead in (b"\x01\x00\x01\x00\x02\x00", b"\x00\x01\x00\x02\x00", b"\x02\x00"):
            check_case({"data": lead + bytes(40), "seed_kind": "crafted-needle-tail", "fault": "header-tail-at-offset-0", "calls": [("from_bytes", "default"), ("from_path", "default"), ("from_path", "all")]}, ctx)
    elif kind == "junk":
        for _ in range(shard["n"]):
            if ctx.out_of_time():
                break
            n = rng.choice([0, 1, 2, 3, 4, 7, 8, 63, 64, 65, 100, 1023, 1024, 1025, 4096, rng.randrange(0, 20000)])
            r = rng.random()
            if r < 0.3:
                data = rng.randbytes(n)
            elif r < 0.5:
                data = bytes(n)
            elif r < 0.7:
                data = (rng.randbytes(rng.randrange(1, 5)) * (n + 1))[:n]
            elif r < 0.85:
                data = (b"MZ" + bytes(58) + struct.pack("<I", rng.choice([0, 4, 64, 1023, 1024, 2**31]))) * (n // 64 + 1)
                data = data[:n]
            else:
                data = bytes([rng.choice([0x69, 0x2E, 0x8A, 0xFE])]) * n
            data = tame(data)
            check_case({"data": data, "seed_kind": "junk", "fault": "none:junk", "calls": calls_for(rng, "junk", data, tier) + [("artifactkit", "default")] * (n < 3000)}, ctx)
    elif kind == "http":
        # header lines of every awkward shape, in every position (first, middle, last) of requests and responses
        odd = [b":", b": ", b":authority: x", b": value", b"::", b"\x3aName: v", b"NoColon", b"", b" ", b"\t", b"K:", b"K: ", b"K:  v ", b"\x00: \x00", b"\xff\xfe: \x80"]
        for start in (b"GET /a HTTP/1.1", b"HTTP/1.1 200 OK", b"BAD"):
            for line in odd:
                for pos in range(3):
                    hdrs = [b"A: 1", b"B: 2"]
                    hdrs.insert(pos, line)
                    data = start + b"\r\n" + b"\r\n".join(hdrs) + b"\r\n\r\nbody"
                    check_case({"data": data, "seed_kind": "http", "fault": f"header-line={line!r}@{pos}", "calls": [("parse_raw_http", "default")]}, ctx)
        # request targets that are long runs of one character class (absolute-form / authority-form look-alikes without "://")
        runs = [b"a" * 40, b"A" * 200, b"abc123" * 12, b"a+b.c-" * 12, b"a1" * 40, b"host-name.example" * 5 + b":443", b"h" * 64 + b":/",
                b"/" * 80, b":" * 80, b"%41" * 40, b"?" * 60, b"a" * 39 + b"://", b"x" * 33 + b":" + b"/" * 40]
        for target in runs:
            for line in (b"GET " + target + b" HTTP/1.1", b"CONNECT " + target + b" HTTP/1.1", b"HTTP/1.1 " + target + b" OK", b"HTTP/1.1 200 " + target):
                data = line + b"\r\nA: 1\r\n\r\n"
                check_case({"data": data, "seed_kind": "http", "fault": f"long-run-target={target[:12]!r}x{len(target)}", "calls": [("parse_raw_http", "default")]}, ctx)
        for _ in range(shard["n"]):
            if ctx.out_of_time():
                break
            s = seed_http(rng)
            data, fault = apply_fault(rng, s, seed_http(rng))
            check_case({"data": data, "seed_kind": "http", "fault": fault, "calls": [("parse_raw_http", "default")]}, ctx)
    elif kind == "sample":
        raw = load_sample(shard["name"])
        if raw is None:
            ctx.notes[f"sample:{shard['name']}"] = "zip not present, skipped"
            return
        # whole sample: structure boundaries are not known by construction, so use those the reference finds
        from dissect.cobaltstrike import beacon

        hits = [i for k in (0x69, 0x2E, 0xAF, 0xCC, 0x00) for i in [raw.find(P.rx1(b"\x00\x01\x00\x01\x00\x02\x00", k))] if i != -1]
        bounds = [0, 2, 64, 0x3C, 1024, 1027, len(raw) // 2, len(raw) - 1, len(raw)] + [h + d for h in hits for d in (0, 7, 100, 4096)]
        seedobj = {"kind": "sample", "data": raw, "fields": [("e_lfanew", 0x3C, 4), ("first8", 0, 8)] + [("cfg.header", h, 7) for h in hits] +
                   [("cfg.len", h + 4, 2) for h in hits], "boundaries": bounds}
        check_case({"data": raw, "seed_kind": f"sample:{shard['name']}", "fault": "none:valid",
                    "calls": [("from_bytes", "caller"), ("find_compile_stamps", "default"), ("find_stage_prepend_append", "default"), ("xordecode", "default")]}, ctx)
        for i in range(shard["n"]):
            if ctx.out_of_time():
                break
            if i % 2 == 0:
                data, fault = apply_fault(rng, seedobj, None)
            else:
                # cropped: headers + a window around the first structure hit
                h = hits[0] if hits else len(raw) // 2
                crop = raw[:2048] + raw[max(h - 1024, 2048) : h + 5120]
                cs = {"kind": "sample", "data": crop, "fields": [("e_lfanew", 0x3C, 4)], "boundaries": [0, 64, 1024, 2048, len(crop)]}
                data, fault = apply_fault(rng, cs, None)
                fault = "cropped-" + fault
            data = tame(data)
            check_case({"data": data, "seed_kind": f"sample:{shard['name']}", "fault": fault, "calls": calls_for(rng, "sample", data, tier)[:3]}, ctx)
    else:
        raise ValueError(kind)


LEVEL_TEXT = (
    "Fault enumeration over valid payloads of every layout (synthetic with known field offsets, and the real sample "
    "beacons): truncations at structure boundaries, boundary values written into every named structure field, bit/byte "
    "flips, splices, junk and crafted minimal inputs are run through all twelve entry points (bytes / BytesIO / real "
    "files / memory maps; default, caller and all-keys modes) under an exception-type monitor, a result-type contract, a "
    "sys.monitoring loop budget per function activation and, for raw-HTTP parsing, a CPU-time limit (ITIMER_VIRTUAL, "
    "20 s of own user time per message) for loops inside the regular-expression engine; wall-clock alarms are reported "
    "as inconclusive."
)
LEVEL_NOTE = "Covers the fault classes enumerated in the rule on the seeds generated; bounded progress is judged per activation (8*n+100000 iterations), not total time."
TECHNIQUE = "fault injection on structured inputs + exception-type monitor + result-type contract + sys.monitoring back-edge budget and CPU-time limit (bounded progress)"
