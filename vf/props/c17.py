"""C17 - Guardrails-protected configurations are recovered iff the checksum matches.

Monitors: reference Guardrails masker (vf/ref/payload.py) -> BeaconConfig.from_bytes must give back the
configuration, an equivalent environmental key, guard settings and offsets; negative cases must never
yield a configuration; a hook on iter_guardrail_configs_with_beacon re-derives the checksum gate with an
own decoding of the guard block on every item the generator yields."""

from __future__ import annotations

import io
import struct

from vf import contracts, core, repotests
from vf.ref import config as C
from vf.ref import payload as P
from vf.ref import tlv

ID = "C17"
LEVEL = "exploration"
RULE = (
    "a case is (configuration of 1-3.5 KB zero-padded to 6144, environmental key, guard options, placement). Keys: every "
    "length 2..256 over a run (ASCII host/user/domain-like names and random bytes, periodic keys included); guard options: "
    "every non-empty combination of USER/COMPUTER/DOMAIN/LOCAL_IP in a valid first position + checksum + terminator + "
    "random padding; placement: arbitrary offset in filler, inside a synthetic PE section, raw or XorEncoded. Negative "
    "cases: stored checksum altered, one masked configuration byte altered, different keys on the two halves of the "
    "configuration, guard configuration truncated, random-padded configuration with a long key (soundness only). "
    "Non-trivial: all. Distinct = distinct payload bytes."
)
ASSUMPTIONS = [
    "the configuration is zero-padded to the 6144-byte patch area (the statement's 'padded to the patch area'); with random padding only soundness is judged",
    "configurations of any size up to the patch area are generated; where the key is not the unique most frequent aligned group of the masked area for any of its lengths (little padding, or a longer run of another byte) a failure to recover is the known finding 'guardrails-key-frequency-heuristic', a success is accepted",
    "an environmental key is reported up to XOR-stream equivalence (a periodic key by its period); exactly as its period when that period is the unique most frequent aligned group of the masked area",
    "beacon single-byte key 0x2e and guard key 0x8a (the defaults the library documents as the only supported ones)",
]
REQUIRED_MONITORS = ["recover.exact", "negative.no_config", "guardrails.checksum_gate", "guardrails.checksum_gate.unmasked"]

OPTS = {5: (5, 1, b"\x00\x01"), 6: (6, 1, b"\x00\x01"), 7: (7, 1, b"\x00\x01"), 8: (8, 2, b"\x0a\x00\x00\x01")}


def stream_equiv(a, b, n=6144):
    if not a or not b:
        return False
    return P.rxk(bytes(n), a) == P.rxk(bytes(n), b)


def min_period(k):
    for p in range(1, len(k) + 1):
        if len(k) % p == 0 and k[:p] * (len(k) // p) == k:
            return p
    return len(k)


def key_is_top_ngram(padded, envkey):
    """Mechanism predicate for the known finding 'guardrails-key-frequency-heuristic': is there a key length L (a
    multiple of the key's period, 2..256) for which the key itself is the unique most frequent aligned L-byte group of
    the key-masked patch area?  Then frequency analysis identifies the key without ambiguity."""
    import collections

    g = P.rxk(padded, envkey)
    p = min_period(envkey)
    for L in range(2, 257):
        if L % p:
            continue
        kl = (envkey * (L // len(envkey) + 1))[:L] if L % len(envkey) else envkey * (L // len(envkey))
        kl = (envkey[:p] * (L // p))
        cnt = collections.Counter(g[i : i + L] for i in range(0, len(g) - L + 1, L))
        top = cnt.most_common(2)
        if top and top[0][0] == kl and (len(top) == 1 or top[1][1] < top[0][1]):
            return True
    return False


def build_payload(case_rng, par):
    import random

    rng = random.Random(par["seed"])
    settings, model = C.build_http_config(rng, keyname="rsa1024_a", extras=par["extras"])
    if par.get("bulk"):
        # enlarge the configuration: one extra pointer-type setting filled with a repeated byte or random bytes, so that
        # only par["bulk"]["padding"] NULs of the patch area remain
        cur = len(tlv.encode(settings))
        n = max(6144 - cur - 6 - par["bulk"]["padding"], 1)
        val = bytes([par["bulk"]["byte"]]) * n if par["bulk"]["byte"] is not None else rng.randbytes(n)
        settings = list(settings) + [(par["bulk"].get("index", 1234), 3, val)]
    cfg = tlv.encode(settings)
    if par.get("xorsniff"):
        # a 256-byte key chosen through the masked bytes it produces at the start of the area: ff ff ff (an end-of-stub
        # marker) and, in the view a XorEncoded reader would decode from there, a small e_lfanew, a Machine word and its
        # SizeOfOptionalHeader - the raw payload passes the XorEncoded sniffing although it is not XorEncoded
        head = bytearray(0x61 + b % 26 for b in rng.randbytes(256))
        head[0:3] = b"\xff\xff\xff"

        def set_decoded(j, value, w=3):
            for i_, v_ in enumerate(value):
                head[w + 8 + j + i_] = head[w + 4 + j + i_] ^ v_

        set_decoded(0x3C, struct.pack("<I", 0x40))
        set_decoded(0x44, struct.pack("<H", 0x8664 if par["arch"] == "x64" else 0x14C))
        set_decoded(0x44 + 16, struct.pack("<H", 0xF0 if par["arch"] == "x64" else 0xE0))
        par["envkey"] = bytes(h ^ c_ ^ 0x2E for h, c_ in zip(head, cfg.ljust(6144, b"\0")[:256]))
    opts = [(o, OPTS[o][1], par["optvals"][str(o)]) for o in par["opts"]]
    kw = {}
    if par["neg"] == "checksum":
        kw["stored_checksum"] = (P.payload_checksum(cfg.ljust(6144, b"\0")) + 1 + par["delta"]) % 2**32
    if par["neg"] == "guard-truncated":
        kw["guard_truncate"] = par["gtrunc"]
    if par["neg"] == "rndpad":
        kw["rnd_pad"] = True
    if par.get("guardlook"):
        # the masked guard configuration (the last 2048 bytes of the protected area) holds bytes that read as the
        # configuration header under a default single-byte key
        mb_rev = P.rx1(P.rxk(cfg.ljust(6144, b"\0"), par["envkey"]), 0x2E)[::-1]
        j, k1 = par["guardlook"]
        pat = bytes(h ^ k1 for h in b"\x00\x01\x00\x01\x00\x02\x00")

        def plant(g, j=j, pat=pat, mb_rev=mb_rev):
            g = bytearray(g)
            g[j : j + 7] = bytes(p_ ^ 0x8A ^ m for p_, m in zip(pat, mb_rev[j : j + 7]))
            return bytes(g)

        kw["guard_plain_mutator"] = plant
    gb, ginfo = P.guard_block(rng, cfg, par["envkey"], opts, **kw)
    if par["neg"] == "cfg-byte":
        b = bytearray(gb)
        pos = par["pos"] % 6144
        b[pos] ^= par["xor"] or 1
        gb = bytes(b)
    if par["neg"] == "two-keys":
        padded = cfg.ljust(6144, b"\0")
        half = P.rx1(P.rxk(padded[:3072], par["envkey"]) + P.rxk(padded[3072:], par["envkey2"]), 0x2E)
        # guard block must be re-masked with the new masked configuration
        g = ginfo["guard_plain"]
        gb = half + P.rx1(bytes(x ^ y for x, y in zip(g, half[::-1][:2048])), 0x8A)
    pre = P.filler(rng, par["pre"])
    if par["keykind"].startswith("straddle:"):
        _, j, k1 = par["keykind"].split(":")
        pre = pre + bytes(h ^ int(k1) for h in b"\x00\x01\x00\x01\x00\x02\x00"[: int(j)])  # the part of the look-alike in front of the area
    if par.get("decoy"):
        # an earlier guard-config candidate that cannot be unmasked: an accidental marker match, or a damaged copy of the area
        if par["decoy"] == "marker":
            a = P.filler(rng, 6)
            start = P.rx1(bytes([0, rng.choice([5, 6, 7]), 0, 1, 0, 2]), 0x8A)
            pair = a + bytes(x ^ y for x, y in zip(a[::-1], start))
            pre = P.filler(rng, 6144 + rng.randrange(0, 40)) + pair + P.filler(rng, rng.randrange(0, 3000)) + pre
        else:
            bad = bytearray(gb)
            bad[rng.randrange(0, 3000)] ^= 0x55
            pre = bytes(bad) + P.filler(rng, rng.randrange(0, 500)) + pre
    post = P.filler(rng, par["post"])
    if par.get("tail_lookalike") and len(gb) == 8192:
        # the last j bytes of the protected area, continued behind it, read as a configuration header under the single-byte key
        # that fits them (found only by an all-keys search): the look-alike begins inside the area, so it is the area's
        j = par["tail_lookalike"]
        hdr = b"\x00\x01\x00\x01\x00\x02\x00"
        k1 = gb[-j] ^ hdr[0]
        if all(gb[-j + i] == hdr[i] ^ k1 for i in range(j)) and bytes([k1]) not in (b"\x69", b"\x2e", b"\x00"):
            post = bytes(h ^ k1 for h in hdr[j:]) + bytes([k1]) * 40 + post
            par["allk"] = True
        else:
            par["tail_lookalike"] = 0
    if par.get("xorsniff") and par.get("xs_marker"):
        # behind the area: bytes that, in the view a XorEncoded reader would decode (d[i] = raw[i] ^ raw[i-4]), form a
        # guard-configuration marker that cannot be unmasked - a candidate in the decoded view only
        a = P.filler(rng, 6)
        start = P.rx1(bytes([0, rng.choice([5, 6, 7]), 0, 1, 0, 2]), 0x8A)
        target = a + bytes(x ^ y for x, y in zip(a[::-1], start))
        r = bytearray(P.filler(rng, 40))
        for t in target:
            r.append(t ^ r[-4])
        post = bytes(r) + P.filler(rng, 300) + post
    inner = pre + gb + post
    base = len(pre)
    if par["container"] == "pe":
        img, info = P.build_pe(rng, arch=par["arch"], data=inner, nsec=3)
        base = info["data_offset"] + len(pre)
        inner = img
    if par["xorenc"]:
        payload, _ = P.xorencode(inner, rng.randbytes(4), stub=P.filler(rng, par["stub"]), marker=True)
        if par["container"] != "pe":
            # a XorEncoded stage is only recognised when it decodes to something containing a PE header
            img, info = P.build_pe(rng, arch=par["arch"], data=pre + gb + post, nsec=2)
            base = info["data_offset"] + len(pre)
            payload, _ = P.xorencode(img, rng.randbytes(4), stub=P.filler(rng, par["stub"]), marker=True)
    else:
        payload = inner
    return payload, cfg, settings, base, ginfo


def check_case(case, ctx):
    if case.get("op") == "repo_test":
        repotests.run(ctx, ['tests/test_guardrails.py'], [contracts.install_guardrails], {"guardrails.checksum_gate": "guardrails.checksum_gate"})
        return
    from dissect.cobaltstrike import beacon

    contracts.install_guardrails()
    contracts.take()
    par = case["par"]
    payload, cfg, settings, base, ginfo = build_payload(None, par)
    b0 = contracts.evaluations["guardrails.checksum_gate"]
    b1 = contracts.evaluations["guardrails.checksum_gate.unmasked"]
    try:
        c = beacon.BeaconConfig.from_bytes(payload, all_xor_keys=True) if par.get("allk") else beacon.BeaconConfig.from_bytes(payload)
        err = None
    except ValueError as e:
        c, err = None, e
    except Exception as e:  # noqa: BLE001
        ctx.violation("extract.exception", f"{type(e).__name__}: {e}", case)
        return
    ctx.mon("guardrails.checksum_gate", contracts.evaluations["guardrails.checksum_gate"] - b0)
    ctx.mon("guardrails.checksum_gate.unmasked", contracts.evaluations["guardrails.checksum_gate.unmasked"] - b1)
    br = contracts.take()
    if br:
        ctx.violation(br[0][0], br[0][1], case)
        return
    neg = par["neg"]
    if neg in (None,):
        ctx.mon("recover.exact")
        if c is None:
            if not key_is_top_ngram(ginfo["padded"], par["envkey"]):
                ctx.violation("recover.exact",
                              f"configuration not recovered: the environmental key is not the unique most frequent aligned group of the masked area "
                              f"(key length {len(par['envkey'])}, configuration uses {len(cfg)} of 6144 bytes, bulk {par.get('bulk')})", case,
                              key="guardrails-key-frequency-heuristic")
                return
            ctx.violation("recover.exact", f"protected configuration not recovered: {err} (key length {len(par['envkey'])}, opts {par['opts']}, container {par['container']}, xorenc {par['xorenc']})", case)
            return
        g = c.guardrails
        if g is None:
            key = None
            hdr_ = b"\x00\x01\x00\x01\x00\x02\x00"
            region_ = payload[max(base - 6, 0) : base + 8192 + 6] if not par["xorenc"] else b""
            accidental = any(P.rx1(hdr_, k1) in region_ for k1 in (range(256) if par.get("allk") else (0x69, 0x2E, 0x00)))
            if (par["keykind"] in ("lead7", "constant", "headerlike") or par["keykind"].startswith("straddle") or par.get("guardlook") or par.get("tail_lookalike")
                    or accidental) and not key_is_top_ngram(ginfo["padded"], par["envkey"]):
                key = "guardrails-key-frequency-heuristic"  # the Guardrails route cannot find the key, the look-alike block is what is left
            ctx.violation("recover.exact", "configuration returned without guardrails metadata (found by another route?)", case, key=key)
            return
        want_tuple = [(i, t, len(v), v) for i, t, v in settings]
        got_tuple = [(s.index.value, s.type.value, s.length, bytes(s.value)) for s in c.settings_tuple]
        problems = []
        if got_tuple != want_tuple:
            problems.append("decoded settings differ from the protected configuration")
        if bytes(c.config_block) != cfg.ljust(6144, b"\0"):
            problems.append("config_block is not the padded original")
        if not stream_equiv(g.payload_xor_key, par["envkey"]) and g.payload_xor_key and \
                P.payload_checksum(P.rxk(P.rxk(ginfo["padded"], par["envkey"]), g.payload_xor_key)) + 1 == ginfo["stored"]:
            # known finding: another (shorter) key unmasks the area to different bytes with the same checksum
            ctx.violation("recover.exact", f"reported key {core.short(g.payload_xor_key, 24)} is not the environmental key {core.short(par['envkey'], 24)}, "
                          f"but the configuration it unmasks has the stored checksum (collision of the Cobalt Strike checksum)", case,
                          key="guardrails-checksum-collision")
            return
        if not stream_equiv(g.payload_xor_key, par["envkey"]):
            problems.append(f"payload_xor_key {core.short(g.payload_xor_key, 40)} is not equivalent to the environmental key {core.short(par['envkey'], 40)}")
        elif bytes(g.payload_xor_key) != par["envkey"][: min_period(par["envkey"])] and min_period(par["envkey"]) >= 2:
            # candidates are tried by increasing length: when the key's own period is the unique most frequent aligned group of
            # that length, it is the first candidate that fits and is reported as such, not as a repetition of itself
            import collections

            mp = min_period(par["envkey"])
            masked = P.rxk(ginfo["padded"], par["envkey"])
            top = collections.Counter(masked[i : i + mp] for i in range(0, len(masked) - mp + 1, mp)).most_common(2)
            ctx.mon("recover.key_exact")
            if top[0][0] == par["envkey"][:mp] and (len(top) == 1 or top[1][1] < top[0][1]):
                problems.append(f"payload_xor_key {core.short(g.payload_xor_key, 40)} is a repetition of the environmental key {core.short(par['envkey'][:mp], 40)}, "
                                f"which is the unique most frequent {mp}-byte group of the area")
        if (g.beacon_config_offset, g.guard_config_offset) != (base, base + 6144):
            problems.append(f"offsets {(g.beacon_config_offset, g.guard_config_offset)} != {(base, base + 6144)}")
        if g.checksum != ginfo["stored"]:
            problems.append(f"checksum {g.checksum} != stored {ginfo['stored']}")
        gs = [(s.option.value, s.type.value, bytes(s.value)) for s in g.settings]
        want_gs = [(o, OPTS[o][1], par["optvals"][str(o)]) for o in par["opts"]] + [(9, 2, struct.pack(">I", ginfo["stored"]))]
        if gs != want_gs:
            problems.append(f"guard settings {gs} != {want_gs}")
        if c.xorkey != b"\x2e" or c.xorencoded is not bool(par["xorenc"]):
            problems.append(f"xorkey/xorencoded {c.xorkey!r}/{c.xorencoded}, the payload is {'' if par['xorenc'] else 'not '}XorEncoded")
        if problems:
            ctx.violation("recover.exact", "; ".join(problems), case)
            return
    else:
        ctx.mon("negative.no_config")
        hdr = b"\x00\x01\x00\x01\x00\x02\x00"
        region = payload[max(base - 6, 0) : base + 8192 + 6] if not par["xorenc"] else b""
        tried = range(256) if par.get("allk") else (0x69, 0x2E, 0x00)
        if c is not None and c.guardrails is None and any(P.rx1(hdr, k1) in region for k1 in tried):
            # key and configuration bytes together happen to form a configuration-header look-alike under a single-byte key
            # that the extraction tries (the defaults; any key in all-keys mode; e.g. key 00 01 over '.. 00 00 00 00 00 03 00',
            # or a two-byte-periodic key over '00 04 00 04 00 07 00'): with the Guardrails layer unusable the ordinary
            # extraction (C01) rightly returns that block - nothing of C17 to judge
            ctx.ok(fp=payload, nontrivial=False, case={"par": dict(par)}, classes=("neg:accidental-lookalike",))
            return
        if c is not None and neg != "rndpad":
            ctx.violation("negative.no_config", f"negative case '{neg}' produced a configuration (key {core.short(c.guardrails.payload_xor_key if c.guardrails else None, 40)})", case)
            return
        if c is not None and neg == "rndpad":
            # soundness only: if something is reported it must be the original
            if bytes(c.config_block)[: len(cfg)] != cfg:
                ctx.violation("negative.no_config", "random-padded configuration recovered with wrong content", case)
                return
        # guard metadata alone may be reported
        try:
            metas = list(beacon.iter_guardrail_configs_with_beacon(io.BytesIO(payload))) if not par["xorenc"] else []
        except Exception as e:  # noqa: BLE001
            ctx.violation("extract.exception", f"metadata scan: {type(e).__name__}: {e}", case)
            return
        if neg in ("checksum", "two-keys") and not par["xorenc"] and par["container"] == "raw":
            if not metas or any(m.unmasked_beacon_config is not None for m in metas):
                ctx.violation("negative.no_config", f"'{neg}': expected guard metadata without a configuration, got {[(m.unmasked_beacon_config is not None) for m in metas]}", case)
                return
        br = contracts.take()
        if br:
            ctx.violation(br[0][0], br[0][1], case)
            return
    if neg is None and not par.get("bulk") and not par["xorenc"] and case.get("then_corrupt", par["seed"] % 3 == 0):
        # history: the very same protected area again, in the same process, but with another checksum stored in its guard
        # configuration - what was learnt from the intact payload must not vouch for this one
        ctx.mon("negative.no_config")
        par2 = dict(par, neg="checksum", delta=[1, -1, 1000][par["seed"] % 3], decoy=None)
        payload2, _, _, _, _ = build_payload(None, par2)
        try:
            c2_ = beacon.BeaconConfig.from_bytes(payload2, all_xor_keys=True) if par.get("allk") else beacon.BeaconConfig.from_bytes(payload2)
        except ValueError:
            c2_ = None
        except Exception as e:  # noqa: BLE001
            ctx.violation("extract.exception", f"after the intact payload: {type(e).__name__}: {e}", case)
            return
        plainish = par["keykind"] in ("lead7", "constant", "headerlike") or par["keykind"].startswith("straddle") or par.get("guardlook") or par.get("tail_lookalike")
        if c2_ is not None and c2_.guardrails is None and not plainish:
            # (an accidental header look-alike under a tried single-byte key, see the negatives above)
            hdr2 = b"\x00\x01\x00\x01\x00\x02\x00"
            plainish = any(P.rx1(hdr2, k1) in payload2 for k1 in (range(256) if par.get("allk") else (0x69, 0x2E, 0x00)))
        if c2_ is not None and not plainish:
            ctx.violation("negative.no_config", f"the same area with a wrong stored checksum, analysed right after the intact payload, produced a configuration "
                          f"(guardrails={'set' if c2_.guardrails else None})", case)
            return
    ctx.ok(fp=payload, case={"par": {k: v for k, v in par.items()}, "payload_len": len(payload)}, classes=(
        f"neg:{neg}", f"keylen:{'2-8' if len(par['envkey']) <= 8 else '9-64' if len(par['envkey']) <= 64 else '65-256'}",
        f"opts:{'+'.join(map(str, par['opts']))}", f"container:{par['container']}", f"xorenc:{par['xorenc']}", f"keykind:{par['keykind'].split(':')[0]}", f"decoy:{par.get('decoy')}",
        "bulk:none" if not par.get("bulk") else f"bulk:{'random' if par['bulk']['byte'] is None else 'run'}", f"guardlook:{bool(par.get('guardlook'))}", f"allkeys:{bool(par.get('allk'))}", f"tail-lookalike:{par.get('tail_lookalike', 0)}",
        f"seam@block-boundary:{(base + 6138) % 8192 > 8180 or (base + 6138) % 8192 == 0}"))


def gen_key(rng, length):
    kind = rng.choice(["ascii", "random", "random", "periodic", "lead7", "constant", "headerlike", "nearperiodic", "straddle"])
    if kind == "straddle" and length >= 6:
        # the first bytes of the masked area continue 1..6 bytes in front of it to a configuration header under a default
        # single-byte key (the configuration itself starts 00 01 00 01 00 02): key[i] = hdr[i] ^ hdr[j + i] ^ 0x2e ^ k
        hdr = b"\x00\x01\x00\x01\x00\x02\x00"
        j = rng.randrange(1, 7)
        k1 = rng.choice([0x69, 0x2E, 0x00])
        kb = bytearray(rng.randrange(1, 256) for _ in range(length))
        for i in range(min(7 - j, length, 6)):
            kb[i] = hdr[i] ^ hdr[j + i] ^ 0x2E ^ k1
        return bytes(kb), f"straddle:{j}:{k1}"
    if kind == "headerlike" and length >= 8:
        # the key contains (configuration header ^ 0x2e ^ k) for a default single-byte key k: wherever the configuration is
        # NUL (its padding), the masked area then reads like the start of a configuration block under k
        k1 = rng.choice([0x69, 0x2E, 0x00])
        pat = bytes(h ^ 0x2E ^ k1 for h in b"\x00\x01\x00\x01\x00\x02\x00")
        at = rng.randrange(0, length - 6)
        kb = bytearray(rng.randrange(1, 256) for _ in range(length))
        kb[at : at + 7] = pat
        return bytes(kb[:length]), kind
    if kind == "nearperiodic" and length >= 6:
        # a short unit repeated, one byte changed: a shorter candidate key unmasks all but a few positions
        u = rng.choice([2, 2, 3, 4])
        unit = bytes(rng.randrange(1, 256) for _ in range(u))
        kb = bytearray((unit * (length // u + 1))[:length])
        kb[rng.randrange(u, length)] ^= rng.choice([1, 2, 4, 0x20, 0xFF])
        return bytes(kb), kind
    if kind == "lead7":
        # seven or more equal leading bytes, among them 0x2e ^ (0x69 | 0x2e | 0x00): the masked area then starts like a
        # configuration under one of the default single-byte keys
        lead = bytes([rng.choice([0x47, 0x2E, 0x00, 0x47, rng.randrange(256)])]) * min(length, rng.choice([7, 7, 8, 12]))
        k = (lead + bytes(rng.randrange(0, 256) for _ in range(length)))[:length]
    elif kind == "constant":
        k = bytes([rng.choice([0x47, 0x2E, 0x41, rng.randrange(1, 256)])]) * length
    elif kind == "ascii":
        alpha = b"ABCDEFGHIJKLMNOPQRSTUVWXYZabcdefghijklmnopqrstuvwxyz0123456789-."
        k = bytes(rng.choice(alpha) for _ in range(length))
    elif kind == "periodic" and length >= 4:
        p = rng.choice([d for d in range(2, length) if length % d == 0] or [length])
        unit = bytes(rng.randrange(1, 256) for _ in range(p))
        k = unit * (length // p)
    else:
        k = bytes(rng.randrange(0, 256) for _ in range(length))
    if not any(k):
        k = b"\x01" + k[1:]
    return k, kind


def gen_par(rng, keylen, neg=None, xorsniff=None):
    first = rng.choice([5, 6, 7, 8])
    rest = [o for o in (5, 6, 7, 8) if o != first and rng.random() < 0.4]
    opts = [first] + sorted(rest)
    def hv():  # 16-bit name hashes / addresses with every zero-byte pattern (00 00 may then appear across record boundaries)
        return rng.choice([rng.randbytes(2), b"\x12\x00", b"\x00\x34", b"\x00\x01", rng.randbytes(1) + b"\x00"])

    optvals = {"5": hv(), "6": hv(), "7": hv(), "8": rng.choice([rng.randbytes(4), b"\x0a\x00\x00\x05", b"\xc0\xa8\x01\x00", rng.randbytes(2) + b"\x00\x00"])}
    envkey, kind = gen_key(rng, keylen)
    while neg is not None and (kind in ("lead7", "constant", "headerlike") or kind.startswith("straddle")):
        # when the Guardrails route cannot unmask such an area (negative cases), bytes of it ARE a block that starts with the
        # configuration header under a default single-byte key: the ordinary extraction (C01) returns that block, which is
        # what it must do for a plain block followed by bytes that merely resemble a guard configuration
        envkey, kind = gen_key(rng, keylen)
    container = rng.choice(["raw", "raw", "pe"])
    par = {
        "seed": rng.getrandbits(32), "extras": rng.random() < 0.8, "opts": opts, "optvals": optvals, "envkey": envkey, "keykind": kind,
        "neg": neg, "pre": rng.choice([0, 1, 5, 6, 100, rng.randrange(0, 3000)]), "post": rng.choice([0, 10, 500]), "container": container,
        "arch": rng.choice(["x86", "x64"]), "xorenc": rng.random() < 0.2, "stub": rng.choice([0, 57, 300]),
        "decoy": rng.choice([None, None, None, "marker", "copy"]) if neg is None else None,
    }
    if neg is None and keylen == 256 and (xorsniff if xorsniff is not None else rng.random() < 0.5):
        par.update(xorsniff=True, keykind="xorsniff", container="raw", xorenc=False, pre=rng.choice([0, 0, 5, 100]), decoy=None, xs_marker=rng.random() < 0.6)
    if neg is None and rng.random() < 0.12:
        par["guardlook"] = (rng.randrange(200, 2040), rng.choice([0x69, 0x2E, 0x00]))
        par["decoy"] = None
    # positions at which the 12 bytes of the seam between configuration and guard configuration straddle a read-block boundary
    if rng.random() < 0.15:
        par["pre"] = rng.choice([8192, 16384]) - 6138 - rng.randrange(0, 13) + (0 if par["container"] == "raw" else rng.randrange(0, 13))
    if par["decoy"] == "copy" and (kind in ("lead7", "constant", "headerlike") or kind.startswith("straddle")):
        par["decoy"] = "marker"  # a damaged copy of such an area is a negative case of its own, see above
    if neg is None and rng.random() < 0.2:
        par["bulk"] = {"padding": rng.choice([0, 2, keylen, 2 * keylen - 1, 2 * keylen + 1, 3 * keylen, 600, rng.randrange(0, 1200)]),
                       "byte": rng.choice([None, None, 0x41, 0x00, 0xFF])}
    if neg is None and rng.random() < 0.12 and not par.get("xorsniff") and not par.get("guardlook"):
        par["tail_lookalike"] = 1
        par["decoy"] = None
    if rng.random() < 0.25 and not par.get("xorsniff"):
        # the caller asks for all 256 single-byte keys: header look-alikes inside the protected area exist under other keys too
        par["allk"] = True
    if neg == "checksum":
        par["delta"] = rng.choice([1, -1, 2, 1000, -2])
    elif neg == "guard-truncated":
        # cut inside the guard settings, before the end of the checksum record (a later cut loses nothing)
        needed = sum(6 + len(optvals[str(o)]) for o in opts) + 10
        par["gtrunc"] = rng.choice([0, 3, 6, 8, needed - 1, rng.randrange(0, needed)])
        par["post"] = 0
        par["container"] = "raw"
        par["xorenc"] = False
    elif neg == "cfg-byte":
        par["pos"] = rng.randrange(0, 6144)
        par["xor"] = rng.randrange(1, 256)
    elif neg == "two-keys":
        k2, kind2 = gen_key(rng, keylen)
        while stream_equiv(k2, envkey) or kind2 in ("lead7", "constant", "headerlike") or kind2.startswith("straddle"):
            k2, kind2 = gen_key(rng, keylen)  # (the second key masks the padding: same exclusion as for the first, see above)
        par["envkey2"] = k2
    return par


def plan(tier, seed):
    q = tier == "quick"
    shards = []
    for i in range(12):
        shards.append({"kind": "positive", "part": i, "parts": 12, "n": 22 if q else 1300})
    for i in range(4):
        shards.append({"kind": "negative", "n": 18 if q else 1200})
    shards.append({"kind": "repo_tests"})
    for s in shards:
        s["budget_s"] = 55 if q else 3000
        s["timeout_s"] = 400 if q else 7200
    return shards


def run_shard(shard, ctx):
    if shard["kind"] == "repo_tests":
        repotests.run(ctx, ['tests/test_guardrails.py'], [contracts.install_guardrails], {"guardrails.checksum_gate": "guardrails.checksum_gate"})
        return
    rng = ctx.rng
    if shard["kind"] == "positive":
        lens = list(range(2, 257))[shard["part"] :: shard["parts"]]
        if shard["part"] in (0, 1):
            for k_ in range(3):
                par = gen_par(rng, 256, xorsniff=True)
                par["xs_marker"] = k_ != 1
                check_case({"par": par}, ctx)
        if shard["part"] in (2, 3, 4, 5):
            # always present: all-keys extraction of an area whose key starts with eight equal bytes that are NOT 0x2e ^ a default
            # key (a header look-alike under one of the other 253 single-byte keys)
            while True:
                par = gen_par(rng, rng.choice([12, 16, 40]))
                if par["keykind"] == "lead7" and not par.get("guardlook") and not par.get("bulk"):
                    break
            lead = rng.choice([b for b in range(1, 256) if b ^ 0x2E not in (0x69, 0x2E, 0x00)])
            par["envkey"] = bytes([lead]) * 8 + par["envkey"][8:]
            par["allk"] = True
            check_case({"par": par}, ctx)
        i = 0
        while i < shard["n"] and not ctx.out_of_time():
            keylen = lens[i % len(lens)] if i < len(lens) else rng.randrange(2, 257)
            # in quick the first pass strides through the lengths so that short, medium and long keys all appear
            if shard["tier"] == "quick":
                keylen = lens[(i * 7) % len(lens)]
            check_case({"par": gen_par(rng, keylen)}, ctx)
            i += 1
    else:
        for i in range(shard["n"]):
            if ctx.out_of_time():
                break
            neg = ["checksum", "cfg-byte", "two-keys", "guard-truncated", "rndpad"][i % 5]
            keylen = rng.choice([2, 3, 7, 15, 16, rng.randrange(2, 64)]) if neg != "rndpad" else rng.choice([15, 64, 200])
            check_case({"par": gen_par(rng, keylen, neg)}, ctx)


LEVEL_TEXT = (
    "Exploration against a reference Guardrails masker: configurations built by the reference builder are padded, masked "
    "with environmental keys of every length 2..256 (over a thorough run; strided in quick), combined with every guard "
    "option combination, placed in filler / PE sections / XorEncoded stages, and BeaconConfig.from_bytes must return the "
    "original settings, an equivalent key, the guard settings, checksum and exact offsets; five classes of negatives must "
    "never yield a configuration; a hook on the real generator re-derives the checksum gate independently for every item."
)
LEVEL_NOTE = "Held on the cases explored; trusted base: the reference masker (mask = env key, then 0x2e; guard = reversed masked config, then 0x8a) and own checksum."
TECHNIQUE = "reference-model runtime monitor (independent masker -> recovered configuration compared) + invariant hook on the yielding generator (checksum gate re-derived independently)"
