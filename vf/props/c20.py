"""C20 - byte codecs and stager URI classification are exact.

Monitors: one-line executable specs written from the property statement run next to the real functions
(reference-model monitor); a spy on BeaconConfig.from_bytes for the staged-beacon gate."""

from __future__ import annotations

import itertools
import random
import string

ID = "C20"
LEVEL = "exploration"
RULE = (
    "xor/netbios/pack cases are (function, arguments) tuples drawn from boundary-biased generators; URI cases are "
    "strings: every string of length<=5 over a 12-symbol alphabet (enumerated; distinct by construction), "
    "'/'+4 alphanumerics (sampled in quick, all 62^4 in thorough), random printable/non-ASCII strings; stager "
    "generation for every length 3..64; staged-beacon gate cases are (request kind, body kind). Non-trivial: "
    "xor with non-zero key and non-empty data, netbios with non-empty data, pack/unpack at a width boundary or "
    "random value, URI of length>=4 (shorter ones are the checksum8==0 shortcut), every generator/gate case. "
    "Distinct = distinct argument tuple."
)
ASSUMPTIONS = [
    "netbios_decode is only judged on outputs of an encoder (odd-length / out-of-alphabet inputs are outside the statement)",
]
REQUIRED_MONITORS = ["xor.spec", "netbios.roundtrip", "pack.roundtrip", "uri.classifier", "uri.generator", "staged.gate"]
EXHAUSTIVE_WHEN = ["uri_len<=5_over_12_symbols"]

URI_ALPHABET = ["/", "a", "W", "A", "0", "9", "\\", "]", "\n", ".", "\x05", "z"]
ALNUM = set(string.ascii_letters + string.digits)


# ---- executable specs (never import the code under test) -------------------------------------------
def spec_xor(data, key):
    if not key or not any(key):
        return data
    return bytes(b ^ key[i % len(key)] for i, b in enumerate(data))


def spec_nb_enc(data, off):
    out = bytearray()
    for b in data:
        out.append((b >> 4) + off)
        out.append((b & 15) + off)
    return bytes(out)


def spec_checksum8(t):
    if len(t) < 4:
        return 0
    return sum(ord(c) for c in t if c != "/") % 256


def spec_x86(u):
    return spec_checksum8(u) == 92


def spec_x64(u):
    return spec_checksum8(u) == 93 and len(u) == 5 and u[0] == "/" and all(c in ALNUM for c in u[1:])


# ---- plan -------------------------------------------------------------------------------------
def plan(tier, seed):
    q = tier == "quick"
    shards = []
    n = 1 if q else 3
    for i in range(2 * n):
        shards.append({"kind": "xor", "n": 12000 if q else 250000, "part": i})
    for i in range(2 * n):
        shards.append({"kind": "netbios", "n": 8000 if q else 150000, "part": i})
    for i in range(2 * n):
        shards.append({"kind": "pack", "n": 15000 if q else 400000, "part": i})
    for first in URI_ALPHABET:
        shards.append({"kind": "uri_exh", "first": first})
    for i in range(2 if q else 4):
        shards.append({"kind": "uri_rand", "n": 40000 if q else 600000, "part": i})
    if not q:
        for c in string.ascii_letters + string.digits:
            shards.append({"kind": "uri_x64_all", "first": c})
    shards.append({"kind": "gen", "reps": 3 if q else 40})
    shards.append({"kind": "staged", "n": 60 if q else 1200})
    for s in shards:
        s["budget_s"] = 50 if q else 900
        s["timeout_s"] = 300 if q else 3000
    return shards


# ---- case checkers ------------------------------------------------------------------------------
def check_case(case, ctx):
    from dissect.cobaltstrike import utils

    op = case["op"]
    if op == "xor":
        data, key = case["data"], case["key"]
        ctx.mon("xor.spec")
        try:
            got = utils.xor(data, key)
        except Exception as e:  # noqa: BLE001
            ctx.violation("xor.spec", f"xor raised {type(e).__name__}: {e}", case)
            return
        want = spec_xor(data, key)
        if got != want:
            ctx.violation("xor.spec", f"xor({data.hex()},{key.hex()}) = {got.hex()} want {want.hex()}", case)
            return
        if len(got) != len(data):
            ctx.violation("xor.length", "length not preserved", case)
            return
        ctx.mon("xor.involution")
        if utils.xor(got, key) != data:
            ctx.violation("xor.involution", "xor(xor(d,k),k) != d", case)
            return
        nt = bool(data) and any(key)
        ctx.ok(fp=("xor", data, key), nontrivial=nt, case=case,
               classes=("xor:" + ("identity" if not any(key) else "keylong" if len(key) > len(data) else "tiled"),))
    elif op == "netbios":
        data, off = case["data"], case["off"]
        ctx.mon("netbios.roundtrip")
        try:
            enc = utils.netbios_encode(data, off)
            dec = utils.netbios_decode(enc, off)
        except Exception as e:  # noqa: BLE001
            ctx.violation("netbios.roundtrip", f"raised {type(e).__name__}: {e}", case)
            return
        if enc != spec_nb_enc(data, off):
            ctx.violation("netbios.spec", f"encode({data.hex()},{off}) = {enc.hex()}", case)
            return
        if dec != data:
            ctx.violation("netbios.roundtrip", f"decode(encode(d)) = {dec.hex()} for d={data.hex()} off={off}", case)
            return
        if off == 0x41:
            if utils.netbios_encode(data) != enc or utils.netbios_decode(enc) != data:
                ctx.violation("netbios.default", "default offset is not 0x41", case)
                return
        ctx.ok(fp=("nb", data, off), nontrivial=bool(data), case=case, classes=(f"nb:off={'41' if off == 0x41 else '61' if off == 0x61 else 'other'}",))
    elif op == "pack":
        _check_pack(case, ctx, utils)
    elif op == "uri":
        _check_uri(case["uri"], ctx, utils, case)
        ctx.ok(fp=("uri", case["uri"]), nontrivial=len(case["uri"]) >= 4, case=case)
    elif op == "uri_block":
        _uri_block(case, ctx, utils)
    elif op == "gen":
        _check_gen(case, ctx, utils)
    elif op == "staged":
        _check_staged(case, ctx)
    else:
        raise ValueError(op)


def _check_pack(case, ctx, utils):
    n, size, order, signed = case["n"], case["size"], case["order"], case["signed"]
    ctx.mon("pack.roundtrip")
    if size is None:
        # free width: the library chooses the width, which must be able to represent the value (sign bit included);
        # only a negative value without signed=True is unrepresentable
        fits = signed or n >= 0
        want = None
    else:
        try:
            want = n.to_bytes(size, order, signed=signed)
            fits = True
        except OverflowError:
            want, fits = None, False
    try:
        got = utils.pack(n, size, byteorder=order, signed=signed)
    except OverflowError:
        got = OverflowError
    except Exception as e:  # noqa: BLE001
        ctx.violation("pack.exception", f"pack raised {type(e).__name__}: {e}", case)
        return
    if not fits:
        if got is not OverflowError:
            ctx.violation("pack.range", f"pack({n},{size},{order},signed={signed}) returned {got!r} for an unrepresentable value", case)
            return
        ctx.ok(fp=("pack", n, size, order, signed), case=case, classes=("pack:overflow",))
        return
    if got is OverflowError or (want is not None and got != want) or (want is None and int.from_bytes(got, order, signed=signed) != n):
        ctx.violation("pack.spec", f"pack({n},{size},{order},signed={signed}) = {got!r} want {want!r} (a free-width packing must represent the value)", case)
        return
    want = got if want is None else want
    back = utils.unpack(got, size, byteorder=order, signed=signed)
    if back != n:
        ctx.violation("pack.roundtrip", f"unpack(pack({n})) = {back} (size={size},{order},signed={signed})", case)
        return
    # the other direction on raw bytes (+ trailing bytes that unpack must ignore at fixed width)
    raw = case["raw"]
    if size is not None:
        v = utils.unpack(raw + case["tail"], size, byteorder=order, signed=signed)
        if v != int.from_bytes(raw, order, signed=signed):
            ctx.violation("unpack.spec", f"unpack({(raw + case['tail']).hex()},{size},{order},{signed}) = {v}", case)
            return
        if utils.pack(v, size, byteorder=order, signed=signed) != raw:
            ctx.violation("pack.roundtrip", f"pack(unpack({raw.hex()})) differs", case)
            return
    # named partials
    if size in (1, 2, 4, 8) and not signed:
        bits = size * 8
        names = []
        if size == 1:
            names = [("u8", "p8")]
        elif order == "little":
            names = [(f"u{bits}", f"p{bits}")]
        else:
            names = [(f"u{bits}be", f"p{bits}be")]
        for un, pn in names:
            ctx.mon("pack.partials")
            if getattr(utils, pn)(n) != want or getattr(utils, un)(want) != n:
                ctx.violation("pack.partials", f"{pn}/{un} disagree with spec for {n}", case)
                return
    if size is None and not signed and order == "big":
        if utils.pack_be(n) != want or utils.unpack_be(want) != n:
            ctx.violation("pack.partials", f"pack_be/unpack_be disagree for {n}", case)
            return
    ctx.ok(fp=("pack", n, size, order, signed, raw), case=case,
           classes=(f"pack:size={size}", f"pack:{order}", f"pack:signed={signed}"))


def _check_uri(uri, ctx, utils, case):
    ctx.mon("uri.classifier")
    try:
        c8 = utils.checksum8(uri)
        a = utils.is_stager_x86(uri)
        b = utils.is_stager_x64(uri)
    except Exception as e:  # noqa: BLE001
        ctx.violation("uri.exception", f"{type(e).__name__}: {e} for {uri!r}", case or {"op": "uri", "uri": uri})
        return False
    if c8 != spec_checksum8(uri) or a is not spec_x86(uri) or b is not spec_x64(uri):
        ctx.violation(
            "uri.classifier",
            f"uri={uri!r}: checksum8={c8} (spec {spec_checksum8(uri)}), x86={a!r} (spec {spec_x86(uri)}), x64={b!r} (spec {spec_x64(uri)})",
            case or {"op": "uri", "uri": uri},
        )
        return False
    if a:
        ctx.classes["uri:x86_true"] += 1
    if b:
        ctx.classes["uri:x64_true"] += 1
    return True


def _uri_block(case, ctx, utils):
    """All strings first+rest, rest over the alphabet up to the length bound (enumeration)."""
    first, alphabet, maxlen = case["first"], case["alphabet"], case["maxlen"]
    n = nt = 0
    for ln in range(0, maxlen):
        for rest in itertools.product(alphabet, repeat=ln):
            uri = first + "".join(rest)
            if not _check_uri(uri, ctx, utils, None):
                return
            n += 1
            nt += len(uri) >= 4
            if (n & 15) == 0 and "/" in uri:
                # classification is a function of the string: ask again for a relative that shares a normalised form (the
                # URI without its slashes, in lower / upper case) right after the URI itself
                for rel in (uri.replace("/", ""), uri.strip("/"), "/" + uri):
                    if not _check_uri(rel, ctx, utils, None):
                        return
                    n += 1
    ctx.bulk(n, nt)


def _check_gen(case, ctx, utils):
    length, x64, seed = case["length"], case["x64"], case["seed"]
    ctx.mon("uri.generator")
    random.seed(seed)
    expect_error = (x64 and length != 4) or length < 3
    try:
        uri = utils.random_stager_uri(x64=x64, length=length)
    except ValueError:
        if not expect_error:
            ctx.violation("uri.generator", f"ValueError for valid request length={length} x64={x64}", case)
        else:
            ctx.ok(fp=("gen", length, x64, seed), case=case, classes=("gen:rejected",))
        return
    if expect_error:
        ctx.violation("uri.generator", f"no ValueError for length={length} x64={x64}: {uri!r}", case)
        return
    good = len(uri) == length + 1 and uri[0] == "/" and all(c in ALNUM for c in uri[1:])
    good = good and (spec_x64(uri) if x64 else spec_x86(uri))
    good = good and (utils.is_stager_x64(uri) if x64 else utils.is_stager_x86(uri))
    if not good:
        ctx.violation("uri.generator", f"generated {uri!r} for length={length} x64={x64} does not satisfy its classifier/length contract", case)
        return
    ctx.ok(fp=("gen", length, x64, seed), case=case, classes=("gen:x64" if x64 else "gen:x86",))


_PAYLOAD = None


def _payload():
    global _PAYLOAD
    if _PAYLOAD is None:
        import struct

        def S(i, t, v):
            return struct.pack(">HHH", i, t, len(v)) + v

        cfg = S(1, 1, b"\x00\x00") + S(2, 1, b"\x00\x50") + S(37, 2, b"\x12\x34\x56\x78")
        _PAYLOAD = b"junk" * 5 + bytes(b ^ 0x2E for b in cfg.ljust(4096, b"\0")) + b"tail"
    return _PAYLOAD


def _check_staged(case, ctx):
    from dissect.cobaltstrike import pcap
    from dissect.cobaltstrike.c2 import HttpRequest, HttpResponse

    ctx.mon("staged.gate")
    uri, body_kind = case["uri"], case["body"]
    body = _payload() if body_kind == "payload" else case.get("junk", b"not a beacon")
    req = None if uri is None else HttpRequest(method=case.get("method", b"GET"), uri=uri.encode("latin-1"), params={}, headers={}, body=b"")
    if case.get("via_wire") and uri is not None:
        # the way a capture is processed: the request object comes from parse_raw_http() on the bytes of the request
        from dissect.cobaltstrike.c2 import parse_raw_http

        try:
            req = parse_raw_http(case.get("method", b"GET") + b" " + uri.encode("latin-1") + b" HTTP/1.1\r\nHost: h\r\n\r\n")
        except ValueError:
            ctx.ok(fp=("staged-unparsed", uri), nontrivial=False, case=case, classes=("staged:unparsed-request",))
            return
    resp = HttpResponse(status=200, headers={}, reason=b"OK", body=body, request=req)
    calls = []
    real = pcap.BeaconConfig.from_bytes

    class Spy:
        @staticmethod
        def from_bytes(data, *a, **kw):
            calls.append(len(data))
            return real(data, *a, **kw)

    orig = pcap.BeaconConfig
    pcap.BeaconConfig = Spy
    try:
        try:
            res = pcap.BeaconCapture.find_staged_beacon(object(), resp)
        except Exception as e:  # noqa: BLE001
            ctx.violation("staged.exception", f"{type(e).__name__}: {e}", case)
            return
    finally:
        pcap.BeaconConfig = orig
    if case.get("via_wire") and uri is not None and "://" in uri.split("/", 1)[0] + "//"[: 2 * uri.startswith(uri.split("/", 1)[0] + "//")]:
        # absolute-form target on the wire: the request object's URI is the path that parse_raw_http() extracted (its subject is
        # C16); the gate classifies the URI of the request object
        uri = req.uri.decode("latin-1")
    is_stager = uri is None or spec_x86(uri) or spec_x64(uri)  # uri: the request URI's bytes as characters, none dropped
    if not is_stager:
        if calls or res is not None:
            ctx.violation("staged.gate", f"known non-stager request {uri!r}: from_bytes calls={len(calls)} result={res!r}", case)
            return
        cls = "staged:gated"
    else:
        if len(calls) != 1:
            ctx.violation("staged.gate", f"request {uri!r} (stager/unknown) but body inspected {len(calls)} times", case)
            return
        if (res is not None) != (body_kind == "payload"):
            ctx.violation("staged.result", f"request {uri!r} body={body_kind}: result {res!r}", case)
            return
        if res is not None and res.raw_settings_by_index.get(37) != 0x12345678:
            ctx.violation("staged.result", "wrong configuration returned", case)
            return
        cls = "staged:inspected"
    ctx.ok(fp=("staged", uri, body_kind, case.get("method"), bool(case.get("via_wire"))), case=case,
           classes=(cls, f"staged:body={body_kind}", f"staged:verb={case.get('method', b'GET').decode()}", "staged:request-from-wire" if case.get("via_wire") else "staged:request-object"))


# ---- generators ---------------------------------------------------------------------------------
def _rbytes(rng, n):
    return bytes(rng.getrandbits(8) for _ in range(n))


def run_shard(shard, ctx):
    from dissect.cobaltstrike import utils

    rng = ctx.rng
    kind = shard["kind"]
    if kind == "xor":
        for i in range(shard["n"]):
            if ctx.out_of_time():
                break
            r0 = rng.random()
            if r0 < 0.8:
                dl = rng.choice([0, 1, 2, 3, 4, 5, 7, 8, 15, 16, 17, 33, 64, 70])
            elif r0 < 0.9:
                dl = rng.randrange(0, 5000)
            else:  # block-size boundaries of any chunked implementation
                dl = rng.choice([4095, 4096, 4097, 6144, 8190, 8191, 8192, 8193, 12285, 12288, 16384, 65535, 65536]) + rng.choice([0, 0, 0, -1, 1])
            kl = rng.choice([0, 1, 2, 3, 4, 5, 8, 16, 70]) if rng.random() < 0.8 else rng.randrange(0, 71)
            data = _rbytes(rng, dl)
            r = rng.random()
            if r < 0.12:
                key = b"\x00" * kl
            elif r < 0.2 and kl:
                key = b"\x00" * (kl - 1) + bytes([rng.randrange(1, 256)])  # only the last key byte is non-zero
            elif r < 0.28 and kl:
                key = bytes([rng.randrange(1, 256)]) + b"\x00" * (kl - 1)
            else:
                key = _rbytes(rng, kl)
            check_case({"op": "xor", "data": data, "key": key}, ctx)
    elif kind == "netbios":
        if shard["part"] == 0:
            for b in range(256):  # every byte value, both standard alphabets
                for off in (0x41, 0x61):
                    check_case({"op": "netbios", "data": bytes([b]), "off": off}, ctx)
        for i in range(shard["n"]):
            if ctx.out_of_time():
                break
            data = _rbytes(rng, rng.choice([0, 1, 2, 3, 16, 31, 200]))
            off = rng.choice([0x41, 0x61, 0, 1, 240, rng.randrange(0, 241)])
            check_case({"op": "netbios", "data": data, "off": off}, ctx)
    elif kind == "pack":
        for i in range(shard["n"]):
            if ctx.out_of_time():
                break
            size = rng.choice([1, 2, 4, 8, 1, 2, 4, 8, None, 3, 16])
            order = rng.choice(["little", "big"])
            signed = rng.random() < 0.4
            bits = 8 * (size if size is not None else rng.randrange(0, 12))
            lo, hi = (-(1 << (bits - 1)), (1 << (bits - 1)) - 1) if signed and bits else (0, (1 << bits) - 1)
            if size is None and signed:
                lo, hi = -(1 << max(bits - 1, 0)), (1 << max(bits - 1, 0))  # around the sign-bit boundary of each width
            r = rng.random()
            if r < 0.4:
                n = rng.choice([lo, lo + 1, hi, hi - 1, 0, 1, -1 if signed else 0, lo - 1, hi + 1])
            else:
                n = rng.randint(lo, hi)
            raw = _rbytes(rng, size) if size is not None else b""
            check_case({"op": "pack", "n": n, "size": size, "order": order, "signed": signed, "raw": raw,
                        "tail": _rbytes(rng, rng.randrange(0, 3))}, ctx)
    elif kind == "uri_exh":
        check_case({"op": "uri_block", "first": shard["first"], "alphabet": URI_ALPHABET, "maxlen": 5}, ctx)
        if shard["first"] == URI_ALPHABET[0]:
            check_case({"op": "uri", "uri": ""}, ctx)
        ctx.exhaustive["uri_len<=5_over_12_symbols"] = True
    elif kind == "uri_x64_all":
        alnum = string.ascii_letters + string.digits
        n = 0
        for rest in itertools.product(alnum, repeat=3):
            uri = "/" + shard["first"] + "".join(rest)
            if not _check_uri(uri, ctx, utils, None):
                return
            n += 1
        ctx.bulk(n, n)
        ctx.exhaustive["slash+4_alphanumerics"] = True
    elif kind == "uri_rand":
        alnum = string.ascii_letters + string.digits
        printable = [chr(c) for c in range(32, 127)]
        for i in range(shard["n"]):
            if ctx.out_of_time():
                break
            r = rng.random()
            if r < 0.55:
                uri = "/" + "".join(rng.choice(alnum) for _ in range(4))
            elif r < 0.65:  # one symbol away from the x64 shape
                u = ["/"] + [rng.choice(alnum) for _ in range(4)]
                pos = rng.randrange(0, 6)
                ch = rng.choice(["\n", "/", ".", " ", "_", "Ł", "\xe9"])
                if pos == 5:
                    u.append(ch)
                else:
                    u[pos] = ch
                uri = "".join(u)
            elif r < 0.85:
                uri = "".join(rng.choice(printable) for _ in range(rng.randrange(0, 24)))
            else:
                uri = "/" + "".join(rng.choice(alnum + "/.-_é中") for _ in range(rng.randrange(0, 40)))
            check_case({"op": "uri", "uri": uri}, ctx)
    elif kind == "gen":
        for rep in range(shard["reps"]):
            for length in list(range(0, 66)) + [100, 255]:
                for x64 in (False, True):
                    if x64 and length not in (3, 4, 5) and rep:
                        continue
                    check_case({"op": "gen", "length": length, "x64": x64, "seed": rng.getrandbits(32)}, ctx)
    elif kind == "staged":
        alnum = string.ascii_letters + string.digits
        fixed = [None, "/", "", "/index.html", "/a/b/c/d", "/abcd\n", "/\xffTOKn", "/TOKn\x80", "/\xe9oOo0", "/oOo0\x80", "\x01/TOKn", "\x1f\x01/oOo0", "\x02TOKn", "//nn\x80"]
        random.seed(shard.get("seed", 0))
        fixed += ["http://c2.example.org" + utils.random_stager_uri(length=4), "https://a" + utils.random_stager_uri(x64=True, length=4),
                  "http://10.0.0.1:8080" + utils.random_stager_uri(length=7)]
        for i in range(shard["n"]):
            r = rng.random()
            if i < len(fixed):
                uri = fixed[i]
            elif r < 0.35:
                random.seed(rng.getrandbits(32))
                uri = utils.random_stager_uri(x64=rng.random() < 0.5, length=4)
            elif r < 0.5:
                random.seed(rng.getrandbits(32))
                uri = utils.random_stager_uri(length=rng.randrange(3, 30))
            else:
                uri = "/" + "".join(rng.choice(alnum + "/.") for _ in range(rng.randrange(0, 12)))
            if rng.random() < 0.2 and uri:
                pos = rng.randrange(0, len(uri) + 1)
                uri = uri[:pos] + rng.choice(["\x80", "\xff", "\xe9"]) + uri[pos:]  # a byte >= 0x80 somewhere in a (stager-looking) URI
            elif i >= len(fixed) and rng.random() < 0.15:
                # request targets in absolute form: the checksum is over the whole target as it stands on the wire - a stager path
                # behind scheme and host is no stager URI, and a target whose characters sum to 92 is one
                prefix = rng.choice(["http://c2.example.org", "https://a", "http://10.0.0.1:8080"])
                if rng.random() < 0.5:
                    random.seed(rng.getrandbits(32))
                    uri = prefix + utils.random_stager_uri(x64=rng.random() < 0.3, length=4)
                else:
                    for _ in range(3000):
                        tail = "/" + "".join(rng.choice(alnum) for _ in range(rng.randrange(3, 8)))
                        if sum(ord(c) for c in prefix + tail if c != "/") % 256 == 92:
                            break
                    uri = prefix + tail
            elif i >= len(fixed) and rng.random() < 0.2:
                # bytes that form a valid multi-byte UTF-8 sequence; the checksum is over the bytes of the request target: URIs
                # whose BYTE sum is 92 (stagers) and URIs whose sum would be 92 only if the sequence counted as one character
                seq = rng.choice(["\xc3\xa9", "\xe2\x82\xac", "\xc2\xa0", "\xc5\x81"])
                as_char = seq.encode("latin-1").decode("utf-8")
                count_as = seq if rng.random() < 0.5 else as_char
                for _ in range(2000):
                    tail = "".join(rng.choice(alnum) for _ in range(rng.randrange(2, 6)))
                    if (sum(ord(c) for c in count_as + tail)) % 256 == 92:
                        break
                uri = "/" + (seq + tail if rng.random() < 0.5 else tail[:1] + seq + tail[1:])
            if rng.random() < 0.1 and uri:
                uri = rng.choice(["\x01", "\x02", "\x1f\x01", "\x7f"]) + uri  # a control character in front of the slash
            wire_ok = uri is not None and uri != "" and not any(ch in uri for ch in " \t\n\r\x0b\x0c?#")
            for body in ("payload", "junk"):
                check_case({"op": "staged", "uri": uri, "body": body, "junk": _rbytes(rng, rng.randrange(0, 64)),
                            "method": rng.choice([b"GET", b"GET", b"POST", b"HEAD", b"get", b"PUT"]), "via_wire": wire_ok and rng.random() < 0.6 and not (i < len(fixed) and body == "payload")}, ctx)
    else:
        raise ValueError(kind)

LEVEL_TEXT = (
    "Exploration with executable one-line specs as oracles: the real xor/NetBIOS/pack/checksum8 functions run next to "
    "independent specs over hundreds of thousands of generated argument tuples, the short-URI space is enumerated "
    "completely (thorough: also all 62^4 '/'+4-alphanumeric URIs), the stager generator is run for every length, and a "
    "spy on BeaconConfig.from_bytes observes that a known non-stager request never gets its body inspected."
)
LEVEL_NOTE = "Held on the argument tuples explored; trusted base: CPython int/bytes arithmetic used by the specs."
TECHNIQUE = "reference-model runtime monitor (executable spec beside the real function) + call spy, exhaustive over short URIs"
