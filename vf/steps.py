"""Bounded-progress monitor.

sys.monitoring JUMP events, enabled with set_local_events only on the code objects of
dissect.cobaltstrike.* (no cost elsewhere).  Only back-edges (dst < src) are counted, per function
*activation* (frame).  An activation that iterates more than the budget raises Overrun from inside the
callback, which unwinds the library call: "terminates" restated as bounded progress per activation.
"""

from __future__ import annotations

import sys
import types

mon = sys.monitoring
TOOL = 3


class Overrun(BaseException):
    """A single function activation exceeded its loop-iteration budget."""


_state = {"limit": 10**12, "total": 0, "maxact": 0, "maxwhere": None, "installed": False, "on": False}
_act = {}


def _on_jump(code, src, dst):
    if dst < src and _state["on"]:
        f = sys._getframe(1)
        e = _act.get(id(f))
        if e is None or e[0] is not f:
            e = _act[id(f)] = [f, 0]
        e[1] += 1
        _state["total"] += 1
        if e[1] > _state["maxact"]:
            _state["maxact"] = e[1]
            _state["maxwhere"] = f"{code.co_name}:{f.f_lineno}"
        if e[1] > _state["limit"]:
            _state["on"] = False
            raise Overrun(f"{code.co_filename.rsplit('/', 1)[-1]}:{code.co_name}:{f.f_lineno} iterated {e[1]} times in one activation (budget {_state['limit']})")


def _on_exit(code, off, val):
    _act.pop(id(sys._getframe(1)), None)


def _code_objects(mod):
    seen = set()
    out = []

    def walk(co):
        if co in seen:
            return
        seen.add(co)
        out.append(co)
        for c in co.co_consts:
            if isinstance(c, types.CodeType):
                walk(c)

    for obj in vars(mod).values():
        if isinstance(obj, types.FunctionType) and obj.__module__ == mod.__name__:
            walk(obj.__code__)
        elif isinstance(obj, type) and obj.__module__ == mod.__name__:
            for v in vars(obj).values():
                f = getattr(v, "__func__", v)
                if isinstance(f, types.FunctionType):
                    walk(f.__code__)
                if isinstance(v, property) and v.fget:
                    walk(v.fget.__code__)
    return out


def install():
    """Attach to every code object of the library modules that handle untrusted bytes."""
    if _state["installed"]:
        return _state["ncode"]
    from dissect.cobaltstrike import artifact, beacon, c2, guardrails, pe, utils, xordecode

    mon.use_tool_id(TOOL, "vf-steps")
    mon.register_callback(TOOL, mon.events.JUMP, _on_jump)
    mon.register_callback(TOOL, mon.events.PY_RETURN, _on_exit)
    n = 0
    for m in (beacon, utils, xordecode, pe, guardrails, artifact, c2):
        for co in _code_objects(m):
            mon.set_local_events(TOOL, co, mon.events.JUMP | mon.events.PY_RETURN)
            n += 1
    _state["installed"] = True
    _state["ncode"] = n
    return n


class budget:
    """with budget(n_input_bytes) as b: <library call>;  b.maxact, b.total, b.where afterwards."""

    def __init__(self, nbytes, per_byte=8, base=100_000):
        self.limit = per_byte * nbytes + base

    def __enter__(self):
        _act.clear()
        _state.update(limit=self.limit, total=0, maxact=0, maxwhere=None, on=True)
        return self

    def __exit__(self, et, ev, tb):
        _state["on"] = False
        self.total = _state["total"]
        self.maxact = _state["maxact"]
        self.where = _state["maxwhere"]
        _act.clear()
        return False
