"""Runtime contracts (icontract) attached to the real functions from outside the repository.

Conditions *record* a breach and return True: a raising contract deep inside a library call would be
swallowed or transformed by the library's own exception handling; the workload inspects `breaches`
after every operation instead.  Every contract counts its evaluations (zero => inconclusive)."""

from __future__ import annotations

import collections
import copy

import icontract

breaches = []
evaluations = collections.Counter()
_installed = set()


def _breach(name, msg):
    if len(breaches) < 50:
        breaches.append((name, msg))


def take():
    out = list(breaches)
    breaches.clear()
    return out


# ---- XorEncodedFile.read: the reported position advances by exactly len(result) -------------------------
def _xf_pos(self):
    return self.tell()


def _xf_advanced(self, result, OLD):
    evaluations["XorEncodedFile.read.position"] += 1
    if OLD.pos >= 0 and self.tell() - OLD.pos != len(result):
        _breach("XorEncodedFile.read.position", f"read returned {len(result)} bytes but tell() moved {OLD.pos} -> {self.tell()}")
    return True


def install_xordecode():
    if "xordecode" in _installed:
        return
    from dissect.cobaltstrike import xordecode

    X = xordecode.XorEncodedFile
    X.read = icontract.snapshot(_xf_pos, name="pos")(icontract.ensure(_xf_advanced)(X.read))
    _installed.add("xordecode")


# ---- HttpDataTransform.__init__: the caller's step list is not modified -----------------------------------
def _hdt_steps(steps):
    return (steps, list(steps))


def _hdt_frame(steps, OLD):
    evaluations["HttpDataTransform.init.frame"] += 1
    if OLD.snap[0] is steps and list(steps) != OLD.snap[1]:
        _breach("HttpDataTransform.init.frame", f"constructor changed the caller's steps list: {OLD.snap[1]!r} -> {list(steps)!r}")
    return True


def install_c2():
    if "c2" in _installed:
        return
    from dissect.cobaltstrike import c2

    H = c2.HttpDataTransform
    H.__init__ = icontract.snapshot(_hdt_steps, name="snap")(icontract.ensure(_hdt_frame)(H.__init__))

    # pad(): result = data + 1..16 'A', length multiple of 16
    def _pad_post(data, result):
        evaluations["c2.pad.post"] += 1
        n = len(result) - len(data)
        if not (1 <= n <= 16 and len(result) % 16 == 0 and result[: len(data)] == data and result[len(data) :] == b"A" * n):
            _breach("c2.pad.post", f"pad({len(data)} bytes) -> {len(result)} bytes")
        return True

    new_pad = icontract.ensure(_pad_post)(c2.pad)
    c2.pad = new_pad
    _installed.add("c2")


# ---- HttpBeaconClient.get_handlers: pure lookup ---------------------------------------------------------------
def _gh_snapshot(self):
    return {k: list(v) for k, v in self.task_map.items()}


def _gh_pure(self, result, OLD):
    evaluations["client.get_handlers.pure"] += 1
    now = {k: list(v) for k, v in self.task_map.items()}
    if now != OLD.tm:
        _breach("client.get_handlers.pure", f"lookup changed the registered handlers: {OLD.tm!r} -> {now!r}")
    if len({id(h) if not hasattr(h, "__func__") else (id(h.__self__), id(h.__func__)) for h in result}) != len(result):
        _breach("client.get_handlers.pure", f"lookup returned a handler more than once: {result!r}")
    return True


def install_client():
    if "client" in _installed:
        return
    from dissect.cobaltstrike import client

    C = client.HttpBeaconClient
    C.get_handlers = icontract.snapshot(_gh_snapshot, name="tm")(icontract.ensure(_gh_pure)(C.get_handlers))
    _installed.add("client")


def install_all():
    install_xordecode()
    install_c2()
    install_client()


def deep(o):
    return copy.deepcopy(o)


# ---- Guardrails: an unmasked configuration is only reported when its checksum matches -----------------------
def _own_guard_checksum(masked_beacon, masked_guard):
    """stored checksum from an own decoding of the guard block, or None"""
    import struct

    rev = masked_beacon[::-1]
    g = bytes(a ^ b ^ 0x8A for a, b in zip(masked_guard, rev))
    pos = 0
    while pos + 6 <= len(g):
        if g[pos : pos + 2] == b"\0\0":
            break
        opt, typ, ln = struct.unpack_from(">HHH", g, pos)
        if pos + 6 + ln > len(g):
            break
        if opt == 9 and ln >= 4:
            return struct.unpack_from(">I", g, pos + 6)[0]
        pos += 6 + ln
    return None


def _own_payload_checksum(data):
    n = 0
    for i, b in enumerate(data):
        n = (n + b * (i % 3 + 1)) % 99999999
    return n


def install_guardrails():
    if "guardrails" in _installed:
        return
    from dissect.cobaltstrike import beacon, guardrails

    real = guardrails.iter_guardrail_configs_with_beacon

    def monitored(fh):
        for gr in real(fh):
            evaluations["guardrails.checksum_gate"] += 1
            if gr.unmasked_beacon_config is not None:
                evaluations["guardrails.checksum_gate.unmasked"] += 1
                stored = _own_guard_checksum(gr.masked_beacon_config, gr.masked_guard_config)
                own = _own_payload_checksum(gr.unmasked_beacon_config) + 1
                if stored is None or own != stored:
                    _breach("guardrails.checksum_gate", f"unmasked configuration reported although its checksum+1 = {own} and the guard configuration stores {stored}")
            yield gr

    guardrails.iter_guardrail_configs_with_beacon = monitored
    beacon.iter_guardrail_configs_with_beacon = monitored
    _installed.add("guardrails")
