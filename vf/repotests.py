"""The repository's own test-suite as one more workload: selected test files are run in-process under the
runtime contracts of vf/contracts.py; a contract that fires during a test is reported with the test id."""

from __future__ import annotations

import io
import os
import sys

from vf import contracts, core


def run(ctx, files, installs, monitors, select=None):
    """files: test files relative to the repository; installs: contract installers; monitors: {ctx monitor name:
    contracts.evaluations key}.  Returns nothing; records into ctx."""
    import pytest

    for inst in installs:
        inst()
    contracts.take()
    before = {k: contracts.evaluations[k] for k in monitors.values()}
    found = []
    ran = []

    class Plugin:
        def pytest_runtest_logreport(self, report):
            if report.when == "call":
                ran.append((report.nodeid, report.outcome))
                br = contracts.take()
                for name, msg in br:
                    found.append((report.nodeid, name, msg))

    args = ["-q", "-p", "no:cacheprovider", "--timeout=600", f"--rootdir={core.REPO}", "-o", "addopts="]
    if select:
        args += ["-k", select]
    args += [os.path.join(core.REPO, f) for f in files]
    old_out, old_err = sys.stdout, sys.stderr
    sys.stdout = sys.stderr = io.StringIO()
    cwd = os.getcwd()
    os.chdir(core.REPO)
    import logging

    logging.disable(logging.NOTSET)  # some tests assert on log records
    try:
        rc = pytest.main(args, plugins=[Plugin()])
    finally:
        logging.disable(logging.CRITICAL)
        os.chdir(cwd)
        sys.stdout, sys.stderr = old_out, old_err
    for mon, key in monitors.items():
        ctx.mon(mon, contracts.evaluations[key] - before[key])
    for nodeid, name, msg in found:
        ctx.violation(name, f"while running the repository test {nodeid}: {msg}", {"op": "repo_test", "files": files, "nodeid": nodeid})
    npass = sum(1 for _, o in ran if o == "passed")
    ctx.notes["repo_tests_under_contracts"] = {"files": files, "ran": len(ran), "passed": npass, "pytest_rc": int(rc)}
    if ran:
        ctx.bulk(len(ran), len(ran), {"repo_test": len(ran)})
